// Package gen holds the seeded workload generators.
package gen

import (
	"math/rand"

	"mltwist/pkg/expr"
	"mltwist/pkg/expr/exprtools"
	"mltwist/verifh/refir"
)

// BoundaryWidths is the boundary-biased width set.
var BoundaryWidths = []expr.Width{1, 2, 3, 4, 5, 7, 8, 9, 15, 16, 17, 31, 32, 33, 63, 64, 65, 127, 128, 255}

// Width draws a width: mostly small/boundary, sometimes uniform 1..255.
func Width(r *rand.Rand) expr.Width {
	switch r.Intn(10) {
	case 0:
		return expr.Width(1 + r.Intn(255))
	case 1, 2, 3:
		return BoundaryWidths[r.Intn(len(BoundaryWidths))]
	default:
		return BoundaryWidths[r.Intn(9)] // <= 15
	}
}

// SmallWidth draws a width in 1..16 biased to powers of two.
func SmallWidth(r *rand.Rand) expr.Width {
	if r.Intn(3) == 0 {
		return expr.Width(1 + r.Intn(16))
	}
	return []expr.Width{1, 2, 4, 8, 16, 3}[r.Intn(6)]
}

var bytePatterns = []byte{0x00, 0x01, 0x7f, 0x80, 0xfe, 0xff}

// ConstBytes draws n bytes from boundary patterns.
func ConstBytes(r *rand.Rand, n int) []byte {
	bs := make([]byte, n)
	switch r.Intn(10) {
	case 8: // zero low part, non-zero above (zero in the low 8 bytes / low half only)
		if n >= 2 {
			lo := n / 2
			if n > 8 && r.Intn(2) == 0 {
				lo = 8
			}
			for i := lo; i < n; i++ {
				bs[i] = byte(r.Intn(256))
			}
			bs[lo+r.Intn(n-lo)] |= byte(1 + r.Intn(255))
		}
	case 9: // a single bit
		bs[r.Intn(n)] = 1 << uint(r.Intn(8))
	case 0: // all zero
	case 1: // all ones
		for i := range bs {
			bs[i] = 0xff
		}
	case 2: // small number
		bs[0] = byte(r.Intn(20))
	case 3: // sign boundary
		for i := range bs {
			bs[i] = 0xff
		}
		bs[n-1] = 0x7f
		if r.Intn(2) == 0 {
			for i := range bs {
				bs[i] = 0
			}
			bs[n-1] = 0x80
		}
	case 4: // long ff run then random
		k := r.Intn(n + 1)
		for i := 0; i < k; i++ {
			bs[i] = 0xff
		}
		for i := k; i < n; i++ {
			bs[i] = byte(r.Intn(256))
		}
	case 5: // per-byte patterns
		for i := range bs {
			bs[i] = bytePatterns[r.Intn(len(bytePatterns))]
		}
	default:
		r.Read(bs)
	}
	return bs
}

// Const draws a constant of width w.
func Const(r *rand.Rand, w expr.Width) expr.Const {
	return expr.NewConst(ConstBytes(r, int(w)), w)
}

// ExprGen generates random expression trees.
type ExprGen struct {
	R *rand.Rand
	// Width draws a node width.
	WidthFn func(*rand.Rand) expr.Width
	// NoLoads generates closed expressions only.
	NoLoads bool
	NoMem   bool
	NoLess  bool
	// Gadgets: probability (0..100) that an inner node is a gadget.
	Gadgets int
	// WidthGadgets: probability (0..100) to wrap a node in a width gadget chain.
	WidthGadgets int
	RegKeys      []string
	MemKeys      []string
	// LessBudget bounds the number of conditionals (possibilities blow-up).
	LessBudget int
	// MaxNodes bounds the (tree) size.
	MaxNodes int
	// per-tree memory: subtrees and conditions generated so far are used again
	// (the same object in several places, the same condition at another width)
	pool  []expr.Expr
	conds [][2]expr.Expr
}

// NewExprGen returns a generator with the default hostile mix.
func NewExprGen(r *rand.Rand) *ExprGen {
	return &ExprGen{R: r, WidthFn: Width, Gadgets: 10, WidthGadgets: 10,
		RegKeys: []string{"r0", "r1", "r2", "r3"}, MemKeys: []string{"m0", "m1"},
		LessBudget: 8, MaxNodes: 2500}
}

// Expr generates a tree of at most the given depth (regenerating when too big).
func (g *ExprGen) Expr(depth int) expr.Expr {
	for {
		lb := g.LessBudget
		g.pool, g.conds = nil, nil
		e := g.gen(depth, &lb)
		if refir.Count(e) <= g.MaxNodes {
			return e
		}
		if depth > 1 {
			depth--
		}
	}
}

var binOps = []expr.BinaryOp{expr.Add, expr.Lsh, expr.Rsh, expr.Mul, expr.Div, expr.Nand}

func (g *ExprGen) leaf() expr.Expr {
	r := g.R
	w := g.WidthFn(r)
	k := r.Intn(10)
	if g.NoLoads && k >= 5 {
		k = r.Intn(5)
	}
	switch {
	case k < 4:
		return Const(r, w)
	case k == 4:
		if r.Intn(2) == 0 {
			return expr.Zero
		}
		return expr.One
	default:
		return expr.NewRegLoad(expr.NewKey(g.RegKeys[r.Intn(len(g.RegKeys))]), w)
	}
}

// ShiftAmount generates an expression suited as a shift amount for width w.
func (g *ExprGen) shiftAmount(w expr.Width) expr.Expr {
	r := g.R
	bits := uint64(w) * 8
	var v uint64
	switch r.Intn(11) {
	case 8: // huge amounts whose byte count wraps small modulo 256
		v = 2048*uint64(1+r.Intn(40)) + uint64(r.Intn(int(bits)+8))
	case 9: // a small amount below high garbage in a constant wider than the operation:
		// the operation crops its second operand like the first
		if w < 200 {
			cw := int(w) + 1 + r.Intn(8)
			bs := make([]byte, cw)
			bs[0] = byte(r.Intn(int(bits)%256 + 1))
			for i := int(w); i < cw; i++ {
				bs[i] = byte(1 + r.Intn(255))
			}
			return expr.NewConst(bs, expr.Width(cw))
		}
		v = 1
	case 10: // symbolic amount wider than the operation
		return expr.NewRegLoad(expr.NewKey(g.RegKeys[r.Intn(len(g.RegKeys))]), w+expr.Width(1+r.Intn(4)))
	case 0:
		v = 0
	case 1:
		v = bits
	case 2:
		v = bits - 1
	case 3:
		v = bits + 1
	case 4:
		v = uint64(r.Intn(int(bits) + 1))
	case 5:
		v = 8 * uint64(r.Intn(int(w)+1))
	default:
		v = uint64(r.Intn(70))
	}
	cw := expr.Width(8)
	if v < 256 && r.Intn(2) == 0 {
		cw = 1
	} else if v < 65536 && r.Intn(2) == 0 {
		cw = 2
	}
	return expr.NewConstUint(v, cw)
}

func (g *ExprGen) gen(depth int, lb *int) expr.Expr {
	e := g.gen1(depth, lb)
	if len(g.pool) < 16 && depth >= 1 {
		g.pool = append(g.pool, e)
	}
	return e
}

func (g *ExprGen) gen1(depth int, lb *int) expr.Expr {
	r := g.R
	if len(g.pool) > 0 && r.Intn(12) == 0 {
		// an earlier subtree of this tree again (the identical object); conditionals it
		// contains count against the budget of alternatives
		e := g.pool[r.Intn(len(g.pool))]
		if n := refir.CountLess(e); n <= *lb {
			*lb -= n
			return e
		}
	}
	if depth <= 0 || r.Intn(6) == 0 {
		return g.leaf()
	}
	var e expr.Expr
	if g.Gadgets > 0 && r.Intn(100) < g.Gadgets {
		e = g.gadget(depth, lb)
	} else {
		w := g.WidthFn(r)
		k := r.Intn(10)
		switch {
		case k < 6:
			op := binOps[r.Intn(len(binOps))]
			a := g.gen(depth-1, lb)
			var b expr.Expr
			if (op == expr.Lsh || op == expr.Rsh) && r.Intn(3) != 0 {
				b = g.shiftAmount(w)
			} else {
				b = g.gen(depth-1, lb)
			}
			e = expr.NewBinary(op, a, b, w)
		case k < 8 && !g.NoLess && *lb > 0:
			*lb--
			var a, b expr.Expr
			if len(g.conds) > 0 && r.Intn(4) == 0 {
				// the condition of an earlier conditional of this tree, compared again
				// (at this node's own width, which decides how much of it is compared)
				cd := g.conds[r.Intn(len(g.conds))]
				a, b = cd[0], cd[1]
				if n := refir.CountLess(a) + refir.CountLess(b); n <= *lb {
					*lb -= n
				} else {
					a, b = g.leaf(), g.leaf()
				}
			} else {
				a = g.gen(depth-1, lb)
				if r.Intn(4) == 0 {
					b = a // equal operands: the boundary of unsigned less
				} else {
					b = g.gen(depth-1, lb)
				}
			}
			if len(g.conds) < 8 {
				g.conds = append(g.conds, [2]expr.Expr{a, b})
			}
			t, f := g.gen(depth-1, lb), g.gen(depth-1, lb)
			if w > 1 && r.Intn(3) == 0 {
				// a branch that is an operation narrower than the conditional (the
				// conditional widens it), with operands wider than the operation
				op := binOps[r.Intn(len(binOps))]
				nw := expr.Width(1 + r.Intn(int(w)-1))
				var y expr.Expr
				if op == expr.Lsh || op == expr.Rsh {
					y = g.shiftAmount(nw)
				} else {
					y = g.gen(depth-2, lb)
				}
				nb := expr.NewBinary(op, g.gen(depth-2, lb), y, nw)
				if r.Intn(2) == 0 {
					t = nb
				} else {
					f = nb
				}
			}
			e = expr.NewLess(a, b, t, f, w)
		case k < 9 && !g.NoLoads && !g.NoMem:
			e = expr.NewMemLoad(expr.NewKey(g.MemKeys[r.Intn(len(g.MemKeys))]), g.gen(depth-1, lb), w)
		default:
			e = g.leaf()
		}
	}
	if g.WidthGadgets > 0 && r.Intn(100) < g.WidthGadgets {
		for n := 1 + r.Intn(3); n > 0; n-- {
			e = exprtools.NewWidthGadget(e, g.WidthFn(r))
		}
	}
	return e
}

// gadget builds one exprtools gadget over small operands.
func (g *ExprGen) gadget(depth int, lb *int) expr.Expr {
	r := g.R
	w := g.WidthFn(r)
	d := depth - 1
	if d > 1 {
		d = 1
	}
	op := func() expr.Expr { return g.gen(d, lb) }
	n := 22
	k := r.Intn(n)
	if g.NoLess || *lb < 3 {
		k = r.Intn(9)
	} else if k >= 9 {
		*lb -= 2
	}
	switch k {
	case 0:
		return exprtools.Negate(op(), w)
	case 1:
		return exprtools.Sub(op(), op(), w)
	case 2:
		return exprtools.Ones(w)
	case 3:
		return exprtools.Mod(op(), op(), w)
	case 4:
		return exprtools.BitNot(op(), w)
	case 5:
		return exprtools.BitAnd(op(), op(), w)
	case 6:
		return exprtools.BitOr(op(), op(), w)
	case 7:
		return exprtools.BitXor(op(), op(), w)
	case 8:
		return exprtools.IntNegative(op(), w)
	case 9:
		return exprtools.Abs(op(), w)
	case 10:
		return exprtools.Bool(op())
	case 11:
		return exprtools.Not(op())
	case 12:
		return exprtools.BoolCond(op(), op(), op(), w)
	case 13:
		return exprtools.Eq(op(), op(), op(), op(), w)
	case 14:
		return exprtools.Leu(g.leaf(), g.leaf(), op(), op(), w)
	case 15:
		if w > 16 {
			w = 8
		}
		return exprtools.Lts(g.leaf(), g.leaf(), g.leaf(), g.leaf(), w)
	case 16:
		return exprtools.RshA(op(), g.shiftAmount(w), w)
	case 17:
		a := g.leaf()
		bit := uint16(r.Intn(int(a.Width()) * 8))
		return exprtools.SignExtend(a, expr.ConstFromUint(bit), w)
	case 18:
		if w > 16 {
			w = 4
		}
		return exprtools.SignedMul(g.leaf(), g.leaf(), w)
	case 19:
		if w > 16 {
			w = 4
		}
		a, b := g.leaf(), g.leaf()
		return exprtools.SignedDiv(a, b, w)
	case 20:
		cnt := exprtools.BitCnt(r.Intn(int(w)*8 + 1))
		return exprtools.MaskBits(op(), cnt, w)
	default:
		return exprtools.NewWidthGadget(op(), w)
	}
}
