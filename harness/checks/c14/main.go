// C14 – sparse memory behaves like byte-addressed memory. Oracle: shadow byte map.
package main

import (
	"fmt"

	"mltwist/internal/state/memory"
	"mltwist/pkg/expr"
	"mltwist/verifh/gen"
	"mltwist/verifh/memchk"
	"mltwist/verifh/mon"
	"mltwist/verifh/refir"
)

var bases = []uint64{0, 0x1000, 1<<32 - 24, 1<<63 - 24, 1 << 63, 0xffffffff80000000, 1<<64 - 64}

func run(c *mon.Case) {
	r := c.Rng
	base := bases[r.Intn(len(bases))]
	win := 48
	big := r.Intn(6) == 0
	if big {
		// a wide window: reads of up to 255 bytes composed of many stored values, pieces
		// beginning 32 and more bytes into the read
		win = 280
		if base > 1<<63 {
			base = 1<<64 - 600 // window + widest access stay below 2^64
		}
		c.Count("wide_window_histories", 1)
	}
	lw := func(n int) int { // width of a read
		if big && r.Intn(2) == 0 {
			return 33 + r.Intn(223)
		}
		return 1 + r.Intn(n)
	}
	var hist []string
	sh := memchk.NewShadow(nil)
	k := &memchk.Checker{C: c, Prefix: "C14", Mem: memory.NewSparse(), Sh: sh,
		Envs: refir.Envs(uint64(c.Idx)+uint64(c.Seed)<<32, 4), Hist: &hist}
	g := gen.NewExprGen(r)
	g.Gadgets, g.WidthGadgets = 5, 5
	nops := 40
	allPairsEvery := 0
	probes := 6
	if !c.Quick() {
		allPairsEvery = 20
		probes = 10
	}
	wide := base < 1<<63 && r.Intn(8) == 0
	type pastStore struct {
		ex   expr.Expr
		addr uint64
		w    int
	}
	var past []pastStore
	for op := 0; op < nops && !c.Failed(); op++ {
		switch x := r.Intn(100); {
		case x < 60:
			w := int(gen.SmallWidth(r))
			if wide && r.Intn(4) == 0 {
				w = 17 + r.Intn(239)
			}
			addr := base + uint64(r.Intn(win))
			var ex expr.Expr
			switch r.Intn(4) {
			case 0: // constant of the write width
				ex = gen.Const(r, expr.Width(w))
			case 1: // constant of another width
				ex = gen.Const(r, gen.SmallWidth(r))
			case 2:
				ex = g.Expr(2)
			default:
				// a value stored before (the same object or a structural copy), written
				// again: at the same place, over exactly what may be left of the old write
				// (tail or head remnant), shifted, or somewhere else, with the old or a
				// new width
				if len(past) == 0 {
					ex = g.Expr(2)
					break
				}
				o := past[r.Intn(len(past))]
				ex = o.ex
				if r.Intn(2) == 0 {
					ex = refir.Clone(ex)
				}
				switch r.Intn(6) {
				case 0:
					addr, w = o.addr, o.w
				case 1: // tail remnant [addr+j, addr+w)
					if o.w > 1 {
						j := 1 + r.Intn(o.w-1)
						addr, w = o.addr+uint64(j), o.w-j
					}
				case 2: // head remnant
					if o.w > 1 {
						addr, w = o.addr, 1+r.Intn(o.w-1)
					}
				case 3:
					addr = o.addr + uint64(r.Intn(o.w))
				case 4:
					w = o.w
				}
				if addr >= base+uint64(win) {
					addr = base + uint64(win) - 1
				}
				c.Count("stores_of_an_earlier_value", 1)
			}
			past = append(past, pastStore{ex, addr, w})
			hist = append(hist, fmt.Sprintf("store(%#x,%s,%d)", addr, clip(refir.String(ex)), w))
			if !k.Store(addr, ex, w) {
				return
			}
			c.Count("stores", 1)
			if !k.Blocks() {
				return
			}
		case x < 85:
			w := lw(12)
			if r.Intn(10) == 0 {
				w = 1 + r.Intn(40)
			}
			addr := base + uint64(r.Intn(win))
			if !k.Load(addr, fit(addr, w)) {
				return
			}
		default:
			w := 1 + r.Intn(24)
			addr := base + uint64(r.Intn(win))
			if !k.Missing(addr, fit(addr, w)) {
				return
			}
			c.Count("missing_queries", 1)
		}
		// probes after every operation
		for i := 0; i < probes; i++ {
			addr := base + uint64(r.Intn(win))
			w := fit(addr, lw(12))
			if !k.Load(addr, w) {
				return
			}
		}
		if !k.Missing(base+uint64(r.Intn(win)), 1+r.Intn(16)) {
			return
		}
		if allPairsEvery > 0 && (op+1)%allPairsEvery == 0 {
			for off := 0; off < win; off++ {
				for w := 1; w <= 12; w++ {
					if !k.Load(base+uint64(off), w) {
						return
					}
				}
			}
			c.Count("all_pairs_sweeps", 1)
		}
	}
	if !k.Canaries() {
		return
	}
	c.Count("loads_ok", k.LoadsOK)
	c.Count("loads_missing", k.LoadsMissing)
	c.Count("loads_nontrivial", k.LoadsNontrivial)
	c.Count("histories", 1)
	if k.LoadsNontrivial > 0 {
		c.Nontrivial(fmt.Sprint(hist))
	}
	if c.WantSample() && len(hist) > 6 {
		c.Sample(hist[:6])
	}
}

// fit clamps w so that [addr, addr+w) does not wrap (the property's domain).
func fit(addr uint64, w int) int {
	if room := ^uint64(0) - addr; uint64(w) > room {
		return int(room)
	}
	return w
}

func clip(s string) string {
	if len(s) > 200 {
		return s[:200] + "..."
	}
	return s
}

func main() {
	mon.Main(mon.Spec{
		Prop:        "C14",
		Rule:        "case = history of 40 stores/loads/missing queries over a 48-byte window at bases {0,0x1000,2^32-24,2^63,2^64-64}, widths 1..16 (sometimes up to 255), constant and symbolic values whose width differs from the write width, a quarter of the stores re-writing an earlier value (same object or structural copy) at the same place, over exactly its tail/head remnant, shifted or elsewhere; after every operation Blocks() and random load/missing probes are compared with a shadow byte map on 6 valuations; non-trivial history = contains a successful load that reads a stored value only in part or spans >=2 stored values",
		Explanation: "oracle: shadow map address -> (stored value, byte index); load ok iff all bytes written, width exact, value equal under every valuation (refir big-int evaluation); Missing/Blocks compared as canonical interval lists; S-expression prints of every value handed in or returned, and expr.Zero/One, are re-checked at the end of each history",
		Assumptions: []string{"refir reference evaluator", "addresses never wrap 2^64 (property's stated domain)"},
		Cases: func(t string) int {
			if t == "thorough" {
				return 150000
			}
			return 12000
		},
		Floor: func(t string) int {
			if t == "thorough" {
				return 50000
			}
			return 2000
		},
		RequiredCounts: []string{"wide_window_histories", "loads_nontrivial", "loads_missing", "stores", "stores_of_an_earlier_value"},
		Run:            run,
	})
}
