// C10 – constant arithmetic is exact for every width. Oracle: math/big.
package main

import (
	"fmt"
	"math/big"
	"math/rand"

	"mltwist/internal/exprtransform"
	"mltwist/pkg/expr"
	"mltwist/verifh/gen"
	"mltwist/verifh/mon"
	"mltwist/verifh/refir"
)

var ops = []expr.BinaryOp{expr.Add, expr.Lsh, expr.Rsh, expr.Mul, expr.Div, expr.Nand}
var opn = map[expr.BinaryOp]string{expr.Add: "add", expr.Lsh: "lsh", expr.Rsh: "rsh", expr.Mul: "mul", expr.Div: "div", expr.Nand: "nand"}

func opWidth(c *mon.Case) int {
	if c.Quick() {
		return int(gen.BoundaryWidths[c.Idx%len(gen.BoundaryWidths)])
	}
	return 1 + c.Idx%255
}

// operandWidth draws a width <, = or > w.
func operandWidth(r *rand.Rand, w int) int {
	switch r.Intn(5) {
	case 0:
		if w > 1 {
			return 1 + r.Intn(w-1)
		}
	case 1:
		if w < 255 {
			return w + 1 + r.Intn(255-w)
		}
	case 2:
		return int(gen.Width(r))
	}
	return w
}

func leConst(v *big.Int, w int) expr.Const { return expr.NewConst(refir.ToLE(v, w), expr.Width(w)) }

func shiftAmount(r *rand.Rand, w int) (*big.Int, int) {
	bits := int64(8 * w)
	var v *big.Int
	switch r.Intn(12) {
	case 0:
		v = big.NewInt(0)
	case 1:
		v = big.NewInt(1)
	case 2:
		v = big.NewInt(7)
	case 3:
		v = big.NewInt(8)
	case 4:
		v = big.NewInt(9)
	case 5:
		v = big.NewInt(bits - 1)
	case 6:
		v = big.NewInt(bits)
	case 7:
		v = big.NewInt(bits + 1)
	case 8:
		v = big.NewInt(1 << 16)
	case 9:
		v = new(big.Int).Lsh(big.NewInt(1), 64)
	case 10:
		v = new(big.Int).Lsh(big.NewInt(1+int64(r.Intn(200))), uint(64+r.Intn(64)))
	default:
		v = big.NewInt(r.Int63n(bits + 8))
	}
	min := (v.BitLen() + 7) / 8
	if min == 0 {
		min = 1
	}
	cw := min
	if r.Intn(2) == 0 {
		cw = min + r.Intn(256-min)
	}
	return v, cw
}

func run(c *mon.Case) {
	r := c.Rng
	w := opWidth(c)
	for sub := 0; sub < 120; sub++ {
		c.Eval(1)
		if r.Intn(7) == 0 {
			less(c, r, w)
			continue
		}
		op := ops[r.Intn(len(ops))]
		w1, w2 := operandWidth(r, w), operandWidth(r, w)
		c1 := gen.Const(r, expr.Width(w1))
		c2 := gen.Const(r, expr.Width(w2))
		class := ""
		if op == expr.Lsh || op == expr.Rsh {
			if r.Intn(4) != 0 {
				v, cw := shiftAmount(r, w)
				c2, w2 = leConst(v, cw), cw
			}
		}
		if op == expr.Div {
			switch r.Intn(6) {
			case 0:
				c2 = expr.NewConst(nil, expr.Width(w2)) // zero
			case 1: // nonzero that truncates to zero
				if w < 255 {
					w2 = w + 1 + r.Intn(255-w)
					bs := make([]byte, w2)
					bs[w+r.Intn(w2-w)] = byte(1 + r.Intn(255))
					c2 = expr.NewConst(bs, expr.Width(w2))
					class = "div-trunc0"
				}
			case 2:
				c2 = expr.NewConstUint(uint8(1), 1)
			case 3:
				bs := make([]byte, w2)
				for i := range bs {
					bs[i] = 0xff
				}
				c2 = expr.NewConst(bs, expr.Width(w2))
			}
		}
		if class == "" && r.Intn(6) == 0 {
			// one constant object used as both operands (shared backing bytes)
			c2, w2 = c1, w1
			c.Count("shared_operand_object", 1)
		}
		snap1, snap2 := string(c1.Bytes()), string(c2.Bytes())
		a := refir.Adjust(refir.FromLE(c1.Bytes()), w)
		b := refir.Adjust(refir.FromLE(c2.Bytes()), w)
		want := refir.BinOp(op, a, b, w)
		e := expr.NewBinary(op, c1, c2, expr.Width(w))
		var f, f2 expr.Expr
		var mid1, mid2 string
		p, val, stack := mon.Try(func() {
			f = exprtransform.ConstFold(e)
			mid1, mid2 = string(c1.Bytes()), string(c2.Bytes()) // (an in-place byte reversal undoes itself on the second fold)
			f2 = exprtransform.ConstFold(e)
		})
		feat := map[string]string{"op": opn[op]}
		if p {
			c.Fail("C10.panic", feat, "ConstFold(%s) panicked: %v\n%s", refir.String(e), val, stack)
			continue
		}
		if mid1 != snap1 || mid2 != snap2 || string(c1.Bytes()) != snap1 || string(c2.Bytes()) != snap2 {
			c.Fail("C10.input-mutated", feat, "ConstFold of %s width %d on operands %x, %x changed an operand constant: after one fold %x, %x, after two %x, %x", opn[op], w, snap1, snap2, mid1, mid2, c1.Bytes(), c2.Bytes())
			continue
		}
		if fc2, ok := f2.(expr.Const); !ok || int(fc2.Width()) != w || refir.FromLE(fc2.Bytes()).Cmp(want) != 0 {
			c.Fail("C10.refold", feat, "folding %s a second time gives %s, exact result %x (LE)", refir.String(e), refir.String(f2), refir.ToLE(want, w))
			continue
		}
		fc, ok := f.(expr.Const)
		if !ok || int(fc.Width()) != w {
			c.Fail("C10.shape", feat, "ConstFold(%s) = %s: not a constant of width %d", refir.String(e), refir.String(f), w)
			continue
		}
		if refir.FromLE(fc.Bytes()).Cmp(want) != 0 {
			c.Fail("C10.value", feat, "ConstFold(%s) = %x, exact result %x (LE)", refir.String(e), fc.Bytes(), refir.ToLE(want, w))
			continue
		}
		c.Count("op_"+opn[op], 1)
		sh := (op == expr.Lsh || op == expr.Rsh) && b.Cmp(big.NewInt(8)) >= 0
		if w1 != w || w2 != w || sh || class != "" {
			c.Nontrivial(fmt.Sprintf("%s|%d|%x|%x", opn[op], w, c1.Bytes(), c2.Bytes()))
		}
		if c.WantSample() && w < 9 {
			c.Sample(map[string]string{"expr": refir.String(e), "folded": refir.String(f)})
		}
	}
}

func less(c *mon.Case, r *rand.Rand, w int) {
	w1, w2, wt, wf := operandWidth(r, w), operandWidth(r, w), operandWidth(r, w), operandWidth(r, w)
	c1 := gen.Const(r, expr.Width(w1))
	c2 := gen.Const(r, expr.Width(w2))
	switch r.Intn(4) {
	case 0: // equal after adjustment
		c2 = leConst(refir.Adjust(refir.FromLE(c1.Bytes()), w), w2)
	case 1: // differ by one
		v := new(big.Int).Add(refir.Adjust(refir.FromLE(c1.Bytes()), w), big.NewInt(1))
		c2 = leConst(v, w2)
	}
	t, f := gen.Const(r, expr.Width(wt)), gen.Const(r, expr.Width(wf))
	a := refir.Adjust(refir.FromLE(c1.Bytes()), w)
	b := refir.Adjust(refir.FromLE(c2.Bytes()), w)
	want := refir.Adjust(refir.FromLE(f.Bytes()), w)
	if a.Cmp(b) < 0 {
		want = refir.Adjust(refir.FromLE(t.Bytes()), w)
	}
	e := expr.NewLess(c1, c2, t, f, expr.Width(w))
	snap := fmt.Sprintf("%x|%x|%x|%x", c1.Bytes(), c2.Bytes(), t.Bytes(), f.Bytes())
	var res expr.Expr
	p, val, stack := mon.Try(func() { exprtransform.ConstFold(e); res = exprtransform.ConstFold(e) })
	feat := map[string]string{"op": "less"}
	if p {
		c.Fail("C10.panic", feat, "ConstFold(%s) panicked: %v\n%s", refir.String(e), val, stack)
		return
	}
	if now := fmt.Sprintf("%x|%x|%x|%x", c1.Bytes(), c2.Bytes(), t.Bytes(), f.Bytes()); now != snap {
		c.Fail("C10.input-mutated", feat, "ConstFold of a comparison at width %d changed an operand constant: %s -> %s", w, snap, now)
		return
	}
	fc, ok := res.(expr.Const)
	if !ok || int(fc.Width()) != w {
		c.Fail("C10.shape", feat, "ConstFold(%s) = %s: not a constant of width %d", refir.String(e), refir.String(res), w)
		return
	}
	if refir.FromLE(fc.Bytes()).Cmp(want) != 0 {
		c.Fail("C10.value", feat, "ConstFold(%s) = %x, exact result %x (LE)", refir.String(e), fc.Bytes(), refir.ToLE(want, w))
		return
	}
	c.Count("op_less", 1)
	c.Nontrivial(fmt.Sprintf("less|%d|%x|%x|%x|%x", w, c1.Bytes(), c2.Bytes(), t.Bytes(), f.Bytes()))
}

func main() {
	mon.Main(mon.Spec{
		Prop:        "C10",
		Rule:        "case = one operation (add/lsh/rsh/mul/div/nand/less) on constants: operation width from the boundary set (quick) or every 1..255 (thorough), operand widths <,=,> the operation width, values from boundary byte patterns, shift amounts {0,1,7,8,9,8w-1,8w,8w+1,2^16,2^64,>2^64,random}, divisors {0, nonzero truncating to 0, 1, all-ones}; non-trivial = operand widths differ from the operation width, or shift >= 8, or divisor truncating to zero, or a comparison; distinct by operands",
		Explanation: "oracle: math/big computation of the documented width rules (zero-extend/truncate operands, result modulo 2^(8w), shift >= 8w gives 0, x/0 = all ones, unsigned compare); the product's ConstFold must return one constant of the operation width with exactly that value, also when the same expression is folded a second time and when one constant object is both operands; operand constants must be byte-identical afterwards",
		Assumptions: []string{"math/big", "refir.BinOp transcription of the documented rules"},
		Cases: func(t string) int {
			if t == "thorough" {
				return 255 * 700
			}
			return 20 * 1000
		},
		Floor: func(t string) int {
			if t == "thorough" {
				return 4000000
			}
			return 500000
		},
		RequiredCounts: []string{"shared_operand_object", "op_add", "op_lsh", "op_rsh", "op_mul", "op_div", "op_nand", "op_less"},
		Run:            run,
	})
}
