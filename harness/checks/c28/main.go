// C28 – structural expression utilities are exact. Oracle: refir structural tools.
package main

import (
	"fmt"
	"hash/fnv"
	"math/rand"

	"mltwist/internal/exprtransform"
	"mltwist/pkg/expr"
	"mltwist/verifh/gen"
	"mltwist/verifh/mon"
	"mltwist/verifh/refir"
)

func clip(s string) string {
	if len(s) > 1200 {
		return s[:1200] + "..."
	}
	return s
}

// mutate returns a copy of e in which exactly one attribute of the idx-th
// pre-order node differs; desc names the attribute.
func mutate(e expr.Expr, idx int, r *rand.Rand) (expr.Expr, string) {
	n := 0
	var desc string
	var rec func(x expr.Expr) expr.Expr
	otherW := func(w expr.Width) expr.Width {
		if w == 255 {
			return 254
		}
		return w + 1
	}
	rec = func(x expr.Expr) expr.Expr {
		me := n
		n++
		hit := me == idx
		switch y := x.(type) {
		case expr.Const:
			if hit {
				bs := append([]byte(nil), y.Bytes()...)
				if r.Intn(2) == 0 {
					desc = "const-width"
					return expr.NewConst(bs, otherW(y.Width()))
				}
				desc = "const-byte"
				bs[r.Intn(len(bs))] ^= 1 << uint(r.Intn(8))
				return expr.NewConst(bs, y.Width())
			}
			return y
		case expr.RegLoad:
			if hit {
				if r.Intn(2) == 0 {
					desc = "reg-key"
					return expr.NewRegLoad(y.Key()+"x", y.Width())
				}
				desc = "reg-width"
				return expr.NewRegLoad(y.Key(), otherW(y.Width()))
			}
			return y
		case expr.MemLoad:
			if hit {
				a := refir.Clone(y.Addr())
				n += refir.Count(y.Addr())
				switch r.Intn(3) {
				case 0:
					desc = "mem-key"
					return expr.NewMemLoad(y.Key()+"x", a, y.Width())
				case 1:
					desc = "mem-width"
					return expr.NewMemLoad(y.Key(), a, otherW(y.Width()))
				default:
					desc = "mem-to-binary"
					return expr.NewBinary(expr.Add, a, a, y.Width())
				}
			}
			return expr.NewMemLoad(y.Key(), rec(y.Addr()), y.Width())
		case expr.Binary:
			if hit {
				a, b := refir.Clone(y.Arg1()), refir.Clone(y.Arg2())
				n += refir.Count(y.Arg1()) + refir.Count(y.Arg2())
				switch r.Intn(3) {
				case 0:
					desc = "binary-op"
					op := y.Op()%6 + 1
					return expr.NewBinary(op, a, b, y.Width())
				case 1:
					desc = "binary-width"
					return expr.NewBinary(y.Op(), a, b, otherW(y.Width()))
				default:
					if refir.Equal(a, b) {
						desc = "binary-width"
						return expr.NewBinary(y.Op(), a, b, otherW(y.Width()))
					}
					desc = "binary-swap"
					return expr.NewBinary(y.Op(), b, a, y.Width())
				}
			}
			a := rec(y.Arg1())
			return expr.NewBinary(y.Op(), a, rec(y.Arg2()), y.Width())
		case expr.Less:
			if hit {
				cs := refir.Children(y)
				k := make([]expr.Expr, 4)
				for i, ch := range cs {
					k[i] = refir.Clone(ch)
					n += refir.Count(ch)
				}
				if r.Intn(2) == 0 && !refir.Equal(k[2], k[3]) {
					desc = "less-swap-branches"
					return expr.NewLess(k[0], k[1], k[3], k[2], y.Width())
				}
				desc = "less-width"
				return expr.NewLess(k[0], k[1], k[2], k[3], otherW(y.Width()))
			}
			a := rec(y.Arg1())
			b := rec(y.Arg2())
			t := rec(y.ExprTrue())
			return expr.NewLess(a, b, t, rec(y.ExprFalse()), y.Width())
		}
		panic("unknown")
	}
	out := rec(e)
	return out, desc
}

func hashOf(s string) uint64 {
	h := fnv.New64a()
	h.Write([]byte(s))
	return h.Sum64()
}

// replacement decides, as a pure function of the node, whether and by what it
// is replaced. mode 0: never, 1: some, 2: all.
func replacement(x expr.Expr, mode int, salt uint64) (expr.Expr, bool) {
	if mode == 0 {
		return nil, false
	}
	h := hashOf(refir.String(x)) ^ salt
	if mode == 1 && h%3 != 0 {
		return nil, false
	}
	switch (h >> 8) % 3 {
	case 0:
		return expr.NewConst([]byte{byte(h >> 16)}, x.Width()), true
	case 1:
		return expr.NewRegLoad(expr.NewKey(fmt.Sprintf("rep%d", (h>>16)%4)), x.Width()), true
	default:
		return expr.NewBinary(expr.Nand, expr.NewRegLoad("repa", x.Width()), expr.NewConst([]byte{byte(h >> 24)}, 1), x.Width()), true
	}
}

// refReplace is the reference bottom-up substitution; it logs callback arguments.
func refReplace[T expr.Expr](e expr.Expr, mode int, salt uint64, log *[]string) expr.Expr {
	var rebuilt expr.Expr
	switch y := e.(type) {
	case expr.Const, expr.RegLoad:
		rebuilt = e
	case expr.MemLoad:
		rebuilt = expr.NewMemLoad(y.Key(), refReplace[T](y.Addr(), mode, salt, log), y.Width())
	case expr.Binary:
		a := refReplace[T](y.Arg1(), mode, salt, log)
		b := refReplace[T](y.Arg2(), mode, salt, log)
		rebuilt = expr.NewBinary(y.Op(), a, b, y.Width())
	case expr.Less:
		a := refReplace[T](y.Arg1(), mode, salt, log)
		b := refReplace[T](y.Arg2(), mode, salt, log)
		t := refReplace[T](y.ExprTrue(), mode, salt, log)
		f := refReplace[T](y.ExprFalse(), mode, salt, log)
		rebuilt = expr.NewLess(a, b, t, f, y.Width())
	}
	if _, ok := rebuilt.(T); ok {
		*log = append(*log, refir.String(rebuilt))
		if rep, ok := replacement(rebuilt, mode, salt); ok {
			return rep
		}
	}
	return rebuilt
}

func checkReplace[T expr.Expr](c *mon.Case, e expr.Expr, kind string, mode int, salt uint64) {
	var wantLog, gotLog []string
	want := refReplace[T](e, mode, salt, &wantLog)
	var got expr.Expr
	p, val, stack := mon.Try(func() {
		got = exprtransform.ReplaceAll(e, func(x T) (expr.Expr, bool) {
			gotLog = append(gotLog, refir.String(x))
			return replacement(x, mode, salt)
		})
	})
	c.Eval(1)
	feat := map[string]string{"kind": kind, "mode": fmt.Sprint(mode)}
	src := refir.String(e)
	if p {
		c.Fail("C28.replace.panic", feat, "ReplaceAll[%s](%s) panicked: %v\n%s", kind, clip(src), val, stack)
		return
	}
	if !refir.Equal(got, want) {
		c.Fail("C28.replace.result", feat, "ReplaceAll[%s](%s) = %s, reference bottom-up substitution gives %s", kind, clip(src), clip(refir.String(got)), clip(refir.String(want)))
		return
	}
	if fmt.Sprint(gotLog) != fmt.Sprint(wantLog) {
		c.Fail("C28.replace.callbacks", feat, "ReplaceAll[%s](%s): callbacks %v, reference %v", kind, clip(src), clip(fmt.Sprint(gotLog)), clip(fmt.Sprint(wantLog)))
		return
	}
	if mode == 0 && !refir.Equal(got, e) {
		c.Fail("C28.replace.nomatch", feat, "ReplaceAll with nothing matching changed the tree")
	}
	c.Count("replace_"+kind, 1)
	if mode == 1 && len(wantLog) >= 2 {
		c.Nontrivial("replace|" + kind + "|" + src)
	}
}

func checkFind[T expr.Expr](c *mon.Case, e expr.Expr, kind string) {
	var want []string
	for _, x := range refir.PreOrder(e) {
		if _, ok := x.(T); ok {
			want = append(want, refir.String(x))
		}
	}
	var got []T
	p, val, stack := mon.Try(func() { got = exprtransform.FindAll[T](e) })
	c.Eval(1)
	if p {
		c.Fail("C28.find.panic", map[string]string{"kind": kind}, "FindAll[%s](%s) panicked: %v\n%s", kind, clip(refir.String(e)), val, stack)
		return
	}
	gs := make([]string, len(got))
	for i, x := range got {
		gs[i] = refir.String(x)
	}
	if fmt.Sprint(gs) != fmt.Sprint(want) {
		c.Fail("C28.find.result", map[string]string{"kind": kind}, "FindAll[%s](%s) = %s, pre-order reference %s", kind, clip(refir.String(e)), clip(fmt.Sprint(gs)), clip(fmt.Sprint(want)))
	}
	c.Count("find_"+kind, 1)
}

func checkEqual(c *mon.Case, a, b expr.Expr, want bool, what string) {
	for _, pr := range [][2]expr.Expr{{a, b}, {b, a}} {
		var got bool
		p, val, stack := mon.Try(func() { got = exprtransform.Equal(pr[0], pr[1]) })
		c.Eval(1)
		feat := map[string]string{"pair": what}
		if p {
			c.Fail("C28.equal.panic", feat, "Equal(%s, %s) panicked: %v\n%s", clip(refir.String(pr[0])), clip(refir.String(pr[1])), val, stack)
			return
		}
		if got != want {
			c.Fail("C28.equal.result", feat, "Equal(%s, %s) = %v, want %v (%s)", clip(refir.String(pr[0])), clip(refir.String(pr[1])), got, want, what)
			return
		}
	}
}

func run(c *mon.Case) {
	r := c.Rng
	for sub := 0; sub < 6; sub++ {
		g := gen.NewExprGen(r)
		g.Gadgets = 5
		g.MaxNodes = 400
		e := g.Expr(1 + r.Intn(5))
		src := refir.String(e)
		// Equal
		checkEqual(c, e, refir.Clone(e), true, "clone")
		nn := refir.Count(e)
		for k := 0; k < 3; k++ {
			m, what := mutate(e, r.Intn(nn), r)
			if refir.Equal(m, e) {
				continue // mutation was an identity (e.g. op wrap); skip
			}
			checkEqual(c, e, m, false, what)
			c.Count("equal_mutation_"+what, 1)
			c.Nontrivial("eq|" + what + "|" + src + "|" + refir.String(m))
		}
		e2 := g.Expr(1 + r.Intn(3))
		checkEqual(c, e, e2, refir.Equal(e, e2), "random")
		// FindAll
		checkFind[expr.Const](c, e, "Const")
		checkFind[expr.RegLoad](c, e, "RegLoad")
		checkFind[expr.MemLoad](c, e, "MemLoad")
		checkFind[expr.Binary](c, e, "Binary")
		checkFind[expr.Less](c, e, "Less")
		// ReplaceAll
		salt := r.Uint64()
		for mode := 0; mode < 3; mode++ {
			checkReplace[expr.Const](c, e, "Const", mode, salt)
			checkReplace[expr.RegLoad](c, e, "RegLoad", mode, salt)
			checkReplace[expr.MemLoad](c, e, "MemLoad", mode, salt)
			checkReplace[expr.Binary](c, e, "Binary", mode, salt)
			checkReplace[expr.Less](c, e, "Less", mode, salt)
		}
		if refir.String(e) != src {
			c.Fail("C28.input-mutated", nil, "a utility changed its input: %s", clip(src))
		}
		// effects
		effects(c, g, r)
		if c.WantSample() && len(src) < 300 {
			c.Sample(map[string]string{"expr": src})
		}
	}
}

func effects(c *mon.Case, g *gen.ExprGen, r *rand.Rand) {
	n := 1 + r.Intn(4)
	efs := make([]expr.Effect, n)
	var wantOps []string
	for i := range efs {
		v := g.Expr(2)
		w := gen.Width(r)
		if r.Intn(2) == 0 {
			efs[i] = expr.NewRegStore(v, expr.NewKey(fmt.Sprintf("r%d", r.Intn(4))), w)
			wantOps = append(wantOps, refir.String(v))
		} else {
			a := g.Expr(2)
			efs[i] = expr.NewMemStore(v, expr.NewKey(fmt.Sprintf("m%d", r.Intn(2))), a, w)
			wantOps = append(wantOps, refir.String(a), refir.String(v))
		}
	}
	desc := refir.EffectsString(efs)
	var got []expr.Expr
	p, val, stack := mon.Try(func() { got = exprtransform.ExprsMany(efs) })
	c.Eval(1)
	if p {
		c.Fail("C28.effect.panic", nil, "ExprsMany(%s) panicked: %v\n%s", clip(desc), val, stack)
		return
	}
	gs := make([]string, len(got))
	for i, x := range got {
		gs[i] = refir.String(x)
	}
	if fmt.Sprint(gs) != fmt.Sprint(wantOps) {
		c.Fail("C28.effect.exprs", nil, "ExprsMany(%s) = %s, want %s", clip(desc), clip(fmt.Sprint(gs)), clip(fmt.Sprint(wantOps)))
		return
	}
	// per-effect Exprs
	for _, ef := range efs {
		var one []expr.Expr
		mon.Try(func() { one = exprtransform.Exprs(ef) })
		wantN := 1
		if _, ok := ef.(expr.MemStore); ok {
			wantN = 2
		}
		if len(one) != wantN {
			c.Fail("C28.effect.exprs", nil, "Exprs(%s) has %d operands", refir.EffectString(ef), len(one))
			return
		}
	}
	// EffectsApply with a tagging transform: wraps operand in a marker
	calls := 0
	var callArgs []string
	tag := func(x expr.Expr) expr.Expr {
		calls++
		callArgs = append(callArgs, refir.String(x))
		return expr.NewBinary(expr.Nand, x, expr.NewRegLoad("tag", 1), x.Width())
	}
	var applied []expr.Effect
	p, val, stack = mon.Try(func() { applied = exprtransform.EffectsApply(efs, tag) })
	if p {
		c.Fail("C28.effect.panic", nil, "EffectsApply(%s) panicked: %v\n%s", clip(desc), val, stack)
		return
	}
	if calls != len(wantOps) || len(applied) != len(efs) {
		c.Fail("C28.effect.apply", nil, "EffectsApply(%s): %d callbacks for %d operands, %d effects for %d", clip(desc), calls, len(wantOps), len(applied), len(efs))
		return
	}
	unt := func(x expr.Expr) (string, bool) {
		b, ok := x.(expr.Binary)
		if !ok || b.Op() != expr.Nand {
			return "", false
		}
		if rl, ok := b.Arg2().(expr.RegLoad); !ok || rl.Key() != "tag" {
			return "", false
		}
		return refir.String(b.Arg1()), true
	}
	for i, ef := range efs {
		ok := false
		switch o := ef.(type) {
		case expr.RegStore:
			if a, is := applied[i].(expr.RegStore); is && a.Key() == o.Key() && a.Width() == o.Width() {
				if s, t := unt(a.Value()); t && s == refir.String(o.Value()) {
					ok = true
				}
			}
		case expr.MemStore:
			if a, is := applied[i].(expr.MemStore); is && a.Key() == o.Key() && a.Width() == o.Width() {
				s1, t1 := unt(a.Value())
				s2, t2 := unt(a.Addr())
				if t1 && t2 && s1 == refir.String(o.Value()) && s2 == refir.String(o.Addr()) {
					ok = true
				}
			}
		}
		if !ok {
			c.Fail("C28.effect.apply", nil, "EffectsApply: effect %d %s became %s", i, clip(refir.EffectString(ef)), clip(refir.EffectString(applied[i])))
			return
		}
	}
	if refir.EffectsString(efs) != desc {
		c.Fail("C28.input-mutated", nil, "EffectsApply changed its input")
	}
	c.Count("effect_lists", 1)
}

func main() {
	mon.Main(mon.Spec{
		Prop:        "C28",
		Rule:        "case = random expression tree and effect list; Equal on (e, deep clone), (e, copy with exactly one node attribute changed: width/op/key/byte/operand order/kind) and random pairs, in both argument orders; FindAll for each of the 5 kinds; ReplaceAll for each kind with replacement functions matching no/some/all nodes, callback order and arguments recorded; Exprs/ExprsMany/EffectsApply; non-trivial = one-attribute mutation pair or a substitution matching a proper subset (>=2 callbacks)",
		Explanation: "oracle: refir structural equality, pre-order traversal and a reference bottom-up substitution; effect helpers must list [addr,value] / [value] and rebuild the same kind, key and width with transformed operands",
		Assumptions: []string{"refir structural tools"},
		Cases: func(t string) int {
			if t == "thorough" {
				return 300000
			}
			return 16000
		},
		Floor: func(t string) int {
			if t == "thorough" {
				return 800000
			}
			return 20000
		},
		RequiredCounts: []string{"replace_Const", "replace_Less", "find_MemLoad", "effect_lists", "equal_mutation_const-byte", "equal_mutation_mem-key", "equal_mutation_binary-op", "equal_mutation_less-swap-branches", "equal_mutation_reg-width"},
		Run:            run,
	})
}
