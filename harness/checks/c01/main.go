// C01 – lifted RISC-V instructions have exactly the RISC-V semantics.
// Oracle: refrv reference machine vs refir application of the lifted effects.
package main

import (
	"fmt"
	"math/big"
	"math/rand"
	"sort"
	"strings"

	"mltwist/internal/riscv"
	"mltwist/pkg/expr"
	"mltwist/pkg/model"
	"mltwist/verifh/mon"
	"mltwist/verifh/refir"
	"mltwist/verifh/refrv"
	"mltwist/verifh/rvgen"
)

type pair struct {
	cfg refrv.Cfg
	def refrv.Def
}

var pairs = buildPairs()

func buildPairs() []pair {
	var out []pair
	for _, x := range []int{32, 64} {
		c := refrv.Cfg{XLEN: x, M: true, A: true}
		for _, d := range refrv.DefsFor(c) {
			out = append(out, pair{c, d})
		}
	}
	return out
}

var parsers = map[refrv.Cfg]riscv.Parser{}

func parser(c refrv.Cfg) riscv.Parser {
	p, ok := parsers[c]
	if !ok {
		p = rvgen.Parser(c)
		parsers[c] = p
	}
	return p
}

var addrs32 = []uint64{0, 4, 0x1000, 1<<31 - 4, 1 << 31, 1<<32 - 4, 1<<32 - 8, 0x7ffff000}
var addrs64 = []uint64{0, 4, 0x1000, 1<<31 - 4, 1<<32 - 4, 1 << 32, 1<<63 - 4, 1 << 63, 1<<64 - 4, 1<<64 - 8}

const ipKey = string(expr.IPKey)

func isX(key string) (int, bool) {
	if len(key) < 2 || key[0] != 'x' {
		return 0, false
	}
	n := 0
	for _, ch := range key[1:] {
		if ch < '0' || ch > '9' {
			return 0, false
		}
		n = n*10 + int(ch-'0')
	}
	return n, n < 32
}

// keysOf collects register keys read/written and memory keys used by effects.
func keysOf(efs []expr.Effect) (regs map[string]bool, mems map[string]bool) {
	regs, mems = map[string]bool{}, map[string]bool{}
	var walk func(e expr.Expr)
	walk = func(e expr.Expr) {
		switch x := e.(type) {
		case expr.RegLoad:
			regs[string(x.Key())] = true
		case expr.MemLoad:
			mems[string(x.Key())] = true
		}
		for _, ch := range refir.Children(e) {
			walk(ch)
		}
	}
	for _, ef := range efs {
		switch x := ef.(type) {
		case expr.RegStore:
			regs[string(x.Key())] = true
			walk(x.Value())
		case expr.MemStore:
			mems[string(x.Key())] = true
			walk(x.Addr())
			walk(x.Value())
		}
	}
	return
}

// csr key bookkeeping per shard: number <-> key must be a bijection
var csrKeyOf = map[uint16]string{}
var csrNumOf = map[string]uint16{}

// immediate enumeration: the immediate field of every mnemonic that has one is split
// into 16 chunks; the quick tier runs one chunk per mnemonic-variant (chosen by the
// seed), the thorough tier all of them, i.e. every 12-bit I/S/load immediate, every
// branch offset, every shift amount, every CSR zimm, and for U/J formats every value of
// the 12 most significant immediate bits (low bits random).
const immChunks = 16

func enumChunks(tier string) int {
	if tier == "thorough" {
		return immChunks
	}
	return 1
}

func nEnum(tier string) int { return len(pairs) * enumChunks(tier) }

// immField returns the number of enumerated immediate values of a format and the
// encoder of the i-th one.
func immField(d refrv.Def) (int, func(w uint32, i int, r *rand.Rand) uint32) {
	switch d.Fmt {
	case refrv.FmtI, refrv.FmtLoad:
		return 4096, func(w uint32, i int, _ *rand.Rand) uint32 { return refrv.EncImmI(w, int64(i)-2048) }
	case refrv.FmtS:
		return 4096, func(w uint32, i int, _ *rand.Rand) uint32 { return refrv.EncImmS(w, int64(i)-2048) }
	case refrv.FmtB:
		return 4096, func(w uint32, i int, _ *rand.Rand) uint32 { return refrv.EncImmB(w, 2*(int64(i)-2048)) }
	case refrv.FmtU:
		return 4096, func(w uint32, i int, r *rand.Rand) uint32 {
			return refrv.EncImmU(w, int64(int32(uint32(i)<<20|uint32(r.Intn(256))<<12)))
		}
	case refrv.FmtJ:
		return 4096, func(w uint32, i int, r *rand.Rand) uint32 {
			return refrv.EncImmJ(w, (int64(i)-2048)<<9|int64(r.Intn(256))<<1)
		}
	case refrv.FmtShift:
		return 64, func(w uint32, i int, _ *rand.Rand) uint32 { return w&^(63<<20) | uint32(i)<<20 }
	case refrv.FmtCSRI:
		return 32, func(w uint32, i int, _ *rand.Rand) uint32 { return w&^(31<<15) | uint32(i)<<15 }
	}
	return 0, nil
}

func enumCase(c *mon.Case) {
	r := c.Rng
	p := pairs[c.Idx%len(pairs)]
	chunk := c.Idx / len(pairs)
	if c.Quick() {
		chunk = (int(c.Seed) + c.Idx) % immChunks
	}
	n, enc := immField(p.def)
	if n == 0 {
		return
	}
	lo, hi := chunk*n/immChunks, (chunk+1)*n/immChunks
	for i := lo; i < hi; i++ {
		i := i
		oneCase(c, r, p.cfg, p.def, func(w uint32) uint32 { return enc(w, i, r)&^p.def.Mask | p.def.Match })
		c.Count("enumerated_immediates", 1)
	}
}

func run(c *mon.Case) {
	if c.Idx < nEnum(c.Tier) {
		enumCase(c)
		return
	}
	r := c.Rng
	p := pairs[(c.Idx-nEnum(c.Tier))%len(pairs)]
	cfg := p.cfg
	// the extension subset varies: any subset containing the definition's extension
	if p.def.Ext != 'M' && r.Intn(3) == 0 {
		cfg.M = false
	}
	if p.def.Ext != 'A' && r.Intn(3) == 0 {
		cfg.A = false
	}
	for sub := 0; sub < 40; sub++ {
		oneCase(c, r, cfg, p.def, nil)
	}
}

func accessWidth(name string) int {
	switch {
	case strings.HasSuffix(name, ".w"):
		return 4
	case strings.HasSuffix(name, ".d"):
		return 8
	}
	return 0
}

func oneCase(c *mon.Case, r *rand.Rand, cfg refrv.Cfg, d refrv.Def, force func(uint32) uint32) {
	xlen := cfg.XLEN
	w := rvgen.Word(r, d)
	if force != nil {
		w = force(w)
	}
	if sub, ok := refrv.Decode(cfg, w); !ok || sub.Name != d.Name {
		return // generator produced a word of another definition (fixed bits); skip
	}
	var addr uint64
	if xlen == 32 {
		addr = addrs32[r.Intn(len(addrs32))]
	} else {
		addr = addrs64[r.Intn(len(addrs64))]
	}
	if r.Intn(4) == 0 {
		addr = (r.Uint64() &^ 3)
		if xlen == 32 {
			addr &= 0xffffffff
		}
	}
	// register file
	var regs [32]uint64
	over := map[string]*big.Int{}
	for i := 1; i < 32; i++ {
		regs[i] = rvgen.RegValue(r, xlen)
	}
	rs1, rs2 := refrv.Rs1(w), refrv.Rs2(w)
	if r.Intn(6) == 0 {
		regs[rs2] = regs[rs1]
	}
	// memory-addressing instructions: keep the access inside the address space and
	// AMO/LR/SC naturally aligned
	mask := ^uint64(0)
	if xlen == 32 {
		mask = 0xffffffff
	}
	if aw := accessWidth(d.Name); aw != 0 && d.Ext == 'A' && rs1 != 0 {
		regs[rs1] &^= uint64(aw - 1)
		if regs[rs1] > mask-8 {
			regs[rs1] = mask - 15
		}
	}
	regs[0] = 0
	for i := 1; i < 32; i++ {
		over[fmt.Sprintf("x%d", i)] = new(big.Int).SetUint64(regs[i])
	}
	env := refir.HashEnv{Seed: r.Uint64(), RegOverride: over}
	desc := func() string {
		return fmt.Sprintf("%s word=%#08x (%s) at %#x; x%d=%#x x%d=%#x", cfg, w, d.Name, addr, rs1, regs[rs1], rs2, regs[rs2])
	}
	feat := map[string]string{"variant": fmt.Sprint(xlen), "name": d.Name}

	// ---- product: lift
	var ins model.Instruction
	var err error
	pp, val, stack := mon.Try(func() { ins, err = parser(cfg).Parse(model.Addr(addr), rvgen.LE(w)) })
	c.Eval(1)
	if pp {
		f2 := map[string]string{"variant": fmt.Sprint(xlen), "name": d.Name, "site": mon.PanicSite(stack)}
		c.Fail("C01.parse.panic", f2, "%s: Parse panicked: %v\n%s", desc(), val, stack)
		return
	}
	if err != nil {
		c.Count("rejected_by_frontend", 1)
		return // acceptance is C02's subject
	}
	efs := ins.Effects
	regKeys, memKeys := keysOf(efs)
	// x0 never written nor read
	if regKeys["x0"] {
		c.Fail("C01.x0", feat, "%s: effects name register x0: %s", desc(), refir.EffectsString(efs))
		return
	}
	for k := range memKeys {
		if k != string(riscv.MemoryKey) {
			c.Fail("C01.memkey", feat, "%s: unexpected memory space %q", desc(), k)
			return
		}
	}
	// CSR key discovery
	var csrKey string
	isCSR := d.Fmt == refrv.FmtCSR || d.Fmt == refrv.FmtCSRI
	for k := range regKeys {
		if _, ok := isX(k); ok || k == ipKey {
			continue
		}
		if !isCSR || (csrKey != "" && csrKey != k) {
			c.Fail("C01.regkey", feat, "%s: unexpected register key %q in %s", desc(), k, refir.EffectsString(efs))
			return
		}
		csrKey = k
	}
	if isCSR {
		n := refrv.CSRNum(w)
		if csrKey == "" {
			c.Fail("C01.csr.key", feat, "%s: CSR instruction without a CSR register in %s", desc(), refir.EffectsString(efs))
			return
		}
		if k, ok := csrKeyOf[n]; ok && k != csrKey {
			c.Fail("C01.csr.key", feat, "%s: CSR %#x uses key %q here but %q before", desc(), n, csrKey, k)
			return
		}
		if m, ok := csrNumOf[csrKey]; ok && m != n {
			c.Fail("C01.csr.key", feat, "%s: key %q is used for CSR %#x and CSR %#x", desc(), csrKey, n, m)
			return
		}
		csrKeyOf[n], csrNumOf[csrKey] = csrKey, n
	}

	// ---- reference machine
	mem := refrv.NewMapMem(func(a uint64) byte { return env.Mem(string(riscv.MemoryKey), new(big.Int).SetUint64(a)) })
	m := &refrv.Machine{Cfg: cfg, X: regs, PC: addr, Mem: mem}
	m.CSR = func(n uint16) uint64 {
		v := env.Reg(csrKey)
		return new(big.Int).And(v, new(big.Int).SetUint64(mask)).Uint64()
	}
	if isCSR {
		// the CSR value in the pre-state is an XLEN-bit value
		v := env.Reg(csrKey)
		over[csrKey] = new(big.Int).And(v, new(big.Int).SetUint64(mask))
	}
	m.Step(w)
	for _, a := range append(append([]refrv.Access(nil), m.Log.MemRead...), m.Log.MemWrite...) {
		if a.Addr+uint64(a.W)-1 < a.Addr || a.Addr+uint64(a.W)-1 > mask {
			c.Count("skipped_access_crosses_top", 1)
			return
		}
	}

	// ---- apply lifted effects with the reference IR semantics
	st := refir.NewState(env)
	st.AddrBits = uint(xlen)
	pp, val, stack = mon.Try(func() { st.Apply(efs) })
	if pp {
		c.Fail("C01.apply.panic", feat, "%s: effects cannot be evaluated: %v\n%s", desc(), val, stack)
		return
	}
	// registers
	for i := 1; i < 32; i++ {
		got := st.Reg(fmt.Sprintf("x%d", i))
		if got.Cmp(new(big.Int).SetUint64(m.X[i])) != 0 {
			c.Fail("C01.reg", feat, "%s: x%d = %#x after the lifted effects, RISC-V gives %#x\neffects: %s", desc(), i, got, m.X[i], clip(refir.EffectsString(efs)))
			return
		}
	}
	// instruction pointer
	next := (addr + 4) & mask
	var gotNext *big.Int
	if v, ok := st.Regs[ipKey]; ok {
		gotNext = v
	} else {
		gotNext = new(big.Int).SetUint64(next)
		if m.Log.IPWritten && m.PC != next {
			// reference jumps away but the lifter has no IP write
		}
	}
	if gotNext.Cmp(new(big.Int).SetUint64(m.PC)) != 0 {
		c.Fail("C01.ip", feat, "%s: next instruction pointer %#x, RISC-V gives %#x\neffects: %s", desc(), gotNext, m.PC, clip(refir.EffectsString(efs)))
		return
	}
	// CSRs and stray registers
	for k, v := range st.Regs {
		if _, ok := isX(k); ok || k == ipKey {
			continue
		}
		want := m.GetCSR(refrv.CSRNum(w))
		if v.Cmp(new(big.Int).SetUint64(want)) != 0 {
			c.Fail("C01.csr.value", feat, "%s: %s = %#x, RISC-V gives %#x\neffects: %s", desc(), k, v, want, clip(refir.EffectsString(efs)))
			return
		}
	}
	if isCSR {
		// the reference always (re)writes the CSR; the lifted effects must leave the same value
		want := m.GetCSR(refrv.CSRNum(w))
		if got := st.Reg(csrKey); got.Cmp(new(big.Int).SetUint64(want)) != 0 {
			c.Fail("C01.csr.value", feat, "%s: %s = %#x, RISC-V gives %#x", desc(), csrKey, got, want)
			return
		}
	}
	// memory: union of written addresses
	addrsW := map[uint64]bool{}
	for a := range mem.Bytes {
		addrsW[a] = true
	}
	for k, mm := range st.Mems {
		if k != string(riscv.MemoryKey) {
			c.Fail("C01.memkey", feat, "%s: write to memory space %q", desc(), k)
			return
		}
		for as := range mm {
			a, _ := new(big.Int).SetString(as, 10)
			addrsW[a.Uint64()] = true
		}
	}
	var al []uint64
	for a := range addrsW {
		al = append(al, a)
	}
	sort.Slice(al, func(i, j int) bool { return al[i] < al[j] })
	for _, a := range al {
		got := st.Mem(string(riscv.MemoryKey), new(big.Int).SetUint64(a))
		if want := mem.Read(a); got != want {
			c.Fail("C01.mem", feat, "%s: memory[%#x] = %#02x, RISC-V gives %#02x\neffects: %s", desc(), a, got, want, clip(refir.EffectsString(efs)))
			return
		}
	}
	c.Count("ok_"+fmt.Sprint(xlen)+"_"+d.Name, 1)
	changed := len(m.Log.RegWrite) > 0 || len(m.Log.MemWrite) > 0 || m.PC != next || len(m.Log.CSRWrite) > 0
	if changed {
		c.Nontrivial(fmt.Sprintf("%s|%08x|%x|%x|%x", cfg, w, addr, regs[rs1], regs[rs2]))
		c.Count("nontrivial_"+fmt.Sprint(xlen)+"_"+d.Name, 1)
	}
	if c.WantSample() {
		c.Sample(map[string]string{"case": desc(), "effects": clip(refir.EffectsString(efs))})
	}
}

func clip(s string) string {
	if len(s) > 1800 {
		return s[:1800] + "..."
	}
	return s
}

func main() {
	var req []string
	for _, p := range pairs {
		if p.def.Fmt == refrv.FmtFence || p.def.Fmt == refrv.FmtSys {
			req = append(req, fmt.Sprintf("ok_%d_%s", p.cfg.XLEN, p.def.Name))
			continue
		}
		req = append(req, fmt.Sprintf("nontrivial_%d_%s", p.cfg.XLEN, p.def.Name))
	}
	mon.Main(mon.Spec{
		Prop:        "C01",
		Rule:        "case = (configuration, instruction word, address, register file): for every mnemonic of both variants, operand fields from {0,1,2,31,aliased,random}, immediates from {0,+-1,min,max,boundaries,random}, every shift amount, CSR numbers {0,1,0x7ff,0x800,0xfff,...}, register contents from {0,1,-1,MIN,MAX,0x7f../0x80.. patterns,32-bit boundaries,random}, addresses {0,4,0x1000,2^31-4,2^32-4,2^32,2^63-4,2^64-4,random}, extension subset varied; plus the immediate enumeration: every 12-bit I/S/load immediate, branch offset, shift amount and CSR zimm of every mnemonic-variant (all in the thorough tier, one sixteenth chosen by the seed in the quick tier; U/J formats: every value of the 12 most significant immediate bits); non-trivial = the reference changes a register, memory, a CSR or jumps; distinct by (word,address,source register values). Every mnemonic-variant must reach non-trivial cases (fence/ecall/ebreak: accepted cases).",
		Explanation: "oracle: the lifted effects are applied with the reference IR semantics (all operands evaluated in the pre-state, then applied in order) and the resulting x1..x31, instruction pointer, CSR and written memory bytes are compared with an independent RISC-V reference interpreter on the same pre-state; x0 must never appear; CSR number <-> register key must be a bijection over everything observed; Parse panics are violations",
		Assumptions: []string{"refrv reference interpreter (written from the unprivileged spec)", "refir evaluator", "AMO/LR/SC only at naturally aligned addresses; accesses crossing 2^XLEN skipped"},
		Cases: func(t string) int {
			if t == "thorough" {
				return nEnum(t) + len(pairs)*8000
			}
			return nEnum(t) + len(pairs)*200
		},
		Floor: func(t string) int {
			if t == "thorough" {
				return 3000000
			}
			return 500000
		},
		RequiredCounts: append(req, "enumerated_immediates"),
		Run:            run,
	})
}
