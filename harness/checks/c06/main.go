// C06 – independent adjacent instructions may always be swapped.
package main

import (
	"fmt"
	"strings"

	"mltwist/pkg/model"
	"mltwist/verifh/depgen"
	"mltwist/verifh/mon"
)

func inter(a, b map[string]bool) bool {
	for k := range a {
		if b[k] {
			return true
		}
	}
	return false
}

func regs(f depgen.Facts) map[string]bool {
	m := map[string]bool{}
	for k := range f.RegsRead {
		m[k] = true
	}
	for k := range f.RegsWritten {
		m[k] = true
	}
	return m
}

func memAccess(f depgen.Facts) bool { return len(f.MemLoad) > 0 || len(f.MemStore) > 0 }

// independent is the predicate of the statement, verbatim.
func independent(a, b depgen.Ins, bIsTerminator bool) (bool, string) {
	if inter(regs(a.Facts), regs(b.Facts)) {
		return false, "share a register"
	}
	// both access one memory space with at least one of them writing it
	for k := range a.Facts.MemStore {
		if b.Facts.MemStore[k] || b.Facts.MemLoad[k] {
			return false, "memory space " + k
		}
	}
	for k := range b.Facts.MemStore {
		if a.Facts.MemLoad[k] {
			return false, "memory space " + k
		}
	}
	special := func(t model.Type) bool { return t.Syscall() || t.CPUStateChange() }
	if special(a.Type) || special(b.Type) {
		return false, "syscall/CPU state"
	}
	if a.Type.MemOrder() && (memAccess(b.Facts) || b.Type.MemOrder()) {
		return false, "memory ordering"
	}
	if b.Type.MemOrder() && (memAccess(a.Facts) || a.Type.MemOrder()) {
		return false, "memory ordering"
	}
	if bIsTerminator {
		return false, "terminating jump"
	}
	return true, ""
}

func run(c *mon.Case) {
	r := c.Rng
	nregs := 2 + r.Intn(3)
	if r.Intn(2) == 0 {
		nregs = 4 // more registers => more independent pairs
	}
	cs := depgen.GenCode(r, 1+r.Intn(4), 12, nregs)
	code, err := cs.Build()
	if err != nil {
		c.Fail("C06.harness", nil, "generated code rejected: %v\n%s", err, depgen.Listing(cs.Ins))
		return
	}
	byAddr := map[uint64]depgen.Ins{}
	for _, in := range cs.Ins {
		byAddr[in.Addr] = in
	}
	for bi, b := range code.Blocks() {
		ins := b.Instructions()
		for i := 0; i+1 < len(ins); i++ {
			a, bb := byAddr[uint64(ins[i].OrigAddr())], byAddr[uint64(ins[i+1].OrigAddr())]
			term := i+1 == len(ins)-1 && bb.Facts.RealJump()
			ok, why := independent(a, bb, term)
			c.Eval(1)
			if !ok {
				c.Count("dependent_pairs", 1)
				_ = why
				continue
			}
			c.Count("independent_pairs", 1)
			c.Nontrivial(a.String() + "|" + bb.String())
			listing := func() string {
				var sb strings.Builder
				for _, x := range ins {
					sb.WriteString(byAddr[uint64(x.OrigAddr())].String() + "\n")
				}
				return sb.String()
			}
			// both directions, restoring the order in between
			for _, mv := range [][2]int{{i, i + 1}, {i + 1, i}} {
				var merr error
				pn, val, stack := mon.Try(func() { merr = b.Move(mv[0], mv[1]) })
				if pn {
					c.Fail("C06.panic", nil, "Move panicked: %v\n%s", val, stack)
					return
				}
				if merr != nil {
					kind := kinds(a, bb)
					c.Fail("C06.swap-rejected", map[string]string{"pair": kind}, "block %d: Move(%d,%d) of independent adjacent instructions rejected: %v\n  %s\n  %s\nblock:\n%s", bi, mv[0], mv[1], merr, a, bb, listing())
					return
				}
				// restore
				if rerr := b.Move(mv[1], mv[0]); rerr != nil {
					c.Fail("C06.swap-rejected", map[string]string{"pair": "restore"}, "block %d: swapping back rejected: %v\n%s", bi, rerr, listing())
					return
				}
			}
			if c.WantSample() {
				c.Sample(map[string]string{"first": a.String(), "second": bb.String()})
			}
		}
	}
	// ---- second phase: the same obligation at every point of a move history. Bounds
	// queries, rejected and accepted moves precede the swap attempts, so anything the
	// block remembers between calls (cached bounds, remembered neighbours, indices) is
	// exercised; the pair is judged in the block's *current* order.
	for bi, b := range code.Blocks() {
		n := len(b.Instructions())
		if n < 3 {
			continue
		}
		var hist []string
		for step := 0; step < 12; step++ {
			switch r.Intn(3) {
			case 0:
				i := r.Intn(n)
				mon.Try(func() { b.LowerBound(i); b.UpperBound(i) })
				hist = append(hist, fmt.Sprintf("bounds(%d)", i))
				continue
			default:
				from, to := r.Intn(n), r.Intn(n)
				var merr error
				pn, val, stack := mon.Try(func() { merr = b.Move(from, to) })
				if pn {
					c.Fail("C06.panic", nil, "Move(%d,%d) panicked: %v\n%s", from, to, val, stack)
					return
				}
				hist = append(hist, fmt.Sprintf("move(%d,%d)=%v", from, to, merr == nil))
				if merr != nil || from == to {
					continue
				}
			}
			c.Count("history_points", 1)
			ins := b.Instructions()
			for i := 0; i+1 < len(ins); i++ {
				a, bb := byAddr[uint64(ins[i].OrigAddr())], byAddr[uint64(ins[i+1].OrigAddr())]
				term := i+1 == len(ins)-1 && bb.Facts.RealJump()
				// a real jump that is no longer last cannot occur (moves keep it last)
				ok, _ := independent(a, bb, term)
				c.Eval(1)
				if !ok || a.Facts.RealJump() {
					continue
				}
				c.Count("independent_pairs_after_history", 1)
				for _, mv := range [][2]int{{i, i + 1}, {i + 1, i}} {
					var merr error
					pn, val, stack := mon.Try(func() { merr = b.Move(mv[0], mv[1]) })
					if pn {
						c.Fail("C06.panic", nil, "Move panicked: %v\n%s", val, stack)
						return
					}
					if merr != nil {
						c.Fail("C06.swap-rejected", map[string]string{"pair": kinds(a, bb), "when": "after-history"}, "block %d after %v: Move(%d,%d) of independent adjacent instructions rejected: %v\n  %s\n  %s", bi, hist, mv[0], mv[1], merr, a, bb)
						return
					}
					hist = append(hist, fmt.Sprintf("swap(%d,%d)", mv[0], mv[1]))
					if rerr := b.Move(mv[1], mv[0]); rerr != nil {
						c.Fail("C06.swap-rejected", map[string]string{"pair": "restore", "when": "after-history"}, "block %d after %v: swapping back rejected: %v", bi, hist, rerr)
						return
					}
				}
			}
		}
	}
}

func kinds(a, b depgen.Ins) string {
	k := func(i depgen.Ins) string {
		s := strings.Fields(i.Text)[0]
		if i.Type != 0 {
			s += fmt.Sprintf("/t%d", i.Type)
		}
		return s
	}
	return k(a) + "+" + k(b)
}

func main() {
	mon.Main(mon.Spec{
		Prop:        "C06",
		Rule:        "case = every adjacent pair of every block of generated synthetic codes (1..4 blocks x 1..12 instructions over 2-4 registers, 2 memory spaces, type flags, jumps to next, terminators), first on the fresh block, then again for every adjacent pair of the current order after each accepted move of a 12-step history of bounds queries and random move attempts; non-trivial = pair satisfying the independence predicate of the statement, distinct by the two instructions",
		Explanation: "oracle: own read/write-set extraction over the effects and the statement's predicate verbatim (no shared register incl. IP, no memory space accessed by both with a write, no syscall/CPU-state change, no memory-ordering instruction paired with a memory access or another memory-ordering instruction, the later one not the block's terminating jump); every independent adjacent pair must be swappable in both directions. Pairs that share anything are not judged.",
		Assumptions: []string{"blocks built through deps.NewCode from synthetic instructions"},
		Cases: func(t string) int {
			if t == "thorough" {
				return 2000000
			}
			return 40000
		},
		Floor: func(t string) int {
			if t == "thorough" {
				return 100000
			}
			return 30000
		},
		RequiredCounts: []string{"independent_pairs", "dependent_pairs", "independent_pairs_after_history", "history_points"},
		Run:            run,
	})
}
