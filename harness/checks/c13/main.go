// C13 – enumerated branch possibilities cover every outcome.
package main

import (
	"mltwist/internal/exprtransform"
	"mltwist/pkg/expr"
	"mltwist/verifh/gen"
	"mltwist/verifh/mon"
	"mltwist/verifh/refir"
)

func clip(s string) string {
	if len(s) > 1500 {
		return s[:1500] + "..."
	}
	return s
}

func lessCount(e expr.Expr) int {
	n := 0
	for _, x := range refir.PreOrder(e) {
		if _, ok := x.(expr.Less); ok {
			n++
		}
	}
	return n
}

// bound estimates the number of alternatives (product/sum rule) to keep cases small.
func bound(e expr.Expr) int {
	switch x := e.(type) {
	case expr.Binary:
		return sat(bound(x.Arg1()) * bound(x.Arg2()))
	case expr.Less:
		return sat(bound(x.ExprTrue()) + bound(x.ExprFalse()))
	case expr.MemLoad:
		return bound(x.Addr())
	}
	return 1
}

func sat(n int) int {
	if n > 1<<20 {
		return 1 << 20
	}
	return n
}

func run(c *mon.Case) {
	r := c.Rng
	for sub := 0; sub < 6; sub++ {
		g := gen.NewExprGen(r)
		g.LessBudget = r.Intn(9)
		g.Gadgets = 8
		g.MaxNodes = 600
		if r.Intn(3) == 0 {
			g.WidthFn = gen.SmallWidth
		}
		var e expr.Expr
		for {
			e = g.Expr(1 + r.Intn(5))
			if bound(e) <= 4096 {
				break
			}
		}
		src := refir.String(e)
		own := refir.Clone(e) // the oracle evaluates a private copy
		c.Eval(1)
		var alts []expr.Expr
		p, val, stack := mon.Try(func() { alts = exprtransform.Possibilities(e) })
		if !p {
			if now := refir.String(e); now != src {
				c.Fail("C13.input-mutated", nil, "Possibilities changed its argument: %s -> %s", clip(src), clip(now))
				continue
			}
		}
		if p {
			c.Fail("C13.panic", map[string]string{"site": mon.PanicSite(stack)}, "Possibilities(%s) panicked: %v\n%s", clip(src), val, stack)
			continue
		}
		if len(alts) == 0 {
			c.Fail("C13.empty", nil, "Possibilities(%s) is empty", clip(src))
			continue
		}
		bad := false
		for i, a := range alts {
			if a.Width() != e.Width() {
				c.Fail("C13.width", nil, "alternative %d of %s has width %d != %d: %s", i, clip(src), a.Width(), e.Width(), clip(refir.String(a)))
				bad = true
				break
			}
			if lessCount(a) != 0 {
				c.Fail("C13.conditional-remains", nil, "alternative %d of %s contains a conditional: %s", i, clip(src), clip(refir.String(a)))
				bad = true
				break
			}
		}
		if bad {
			continue
		}
		for i, env := range refir.Envs(uint64(c.Idx)*8+uint64(sub)+uint64(c.Seed)<<20, 6) {
			want := refir.Eval(own, env)
			found := false
			for _, a := range alts {
				if refir.Eval(a, env).Cmp(want) == 0 {
					found = true
					break
				}
			}
			if !found {
				c.Fail("C13.not-covered", nil, "env %d: %s = %x but none of its %d alternatives has that value; first: %s", i, clip(src), want, len(alts), clip(refir.String(alts[0])))
				break
			}
		}
		c.Count("alternatives", len(alts))
		c.Count("exprs", 1)
		if lessCount(e) >= 2 {
			c.Nontrivial(src)
		}
		if c.WantSample() && len(src) < 300 && lessCount(e) >= 2 {
			c.Sample(map[string]any{"expr": src, "alternatives": len(alts)})
		}
	}
}

func main() {
	mon.Main(mon.Spec{
		Prop:        "C13",
		Rule:        "case = random expression tree with 0..8 conditionals nested in conditions, branches, operands and load addresses (alternatives bounded by 4096); non-trivial = tree with >=2 conditionals, distinct by S-expression",
		Explanation: "oracle: every alternative has the expression's width and no Less node; under each of 8 valuations some alternative evaluates (refir) to the value of the expression",
		Assumptions: []string{"refir reference evaluator"},
		Cases: func(t string) int {
			if t == "thorough" {
				return 1200000
			}
			return 60000
		},
		Floor: func(t string) int {
			if t == "thorough" {
				return 100000
			}
			return 8000
		},
		RequiredCounts: []string{"alternatives"},
		Run:            run,
	})
}
