// C18 – register state holds whole-register values.
package main

import (
	"fmt"
	"math/big"

	"mltwist/internal/state"
	"mltwist/pkg/expr"
	"mltwist/pkg/model"
	"mltwist/verifh/gen"
	"mltwist/verifh/mon"
	"mltwist/verifh/refir"
)

func clip(s string) string {
	if len(s) > 500 {
		return s[:500] + "..."
	}
	return s
}

type regShadow struct {
	ex    expr.Expr // private clone
	w     int
	print string
	orig  expr.Expr
}

func run(c *mon.Case) {
	r := c.Rng
	st := state.New()
	g := gen.NewExprGen(r)
	g.Gadgets, g.WidthGadgets = 5, 10
	keys := []string{"k0", "k1", "k2"}
	sh := map[string]*regShadow{}
	memSh := map[string]map[uint64]bool{} // memory key -> written addresses
	envs := refir.Envs(uint64(c.Idx)+uint64(c.Seed)<<32, 4)
	var hist []string
	desc := func() string {
		h := hist
		if len(h) > 30 {
			h = h[len(h)-30:]
		}
		s := ""
		for _, x := range h {
			s += x + "; "
		}
		return s
	}
	snapshot := func() string {
		s := fmt.Sprintf("len=%d ", st.Regs.Len())
		for _, k := range keys {
			if v, ok := st.Regs.Values()[expr.Key(k)]; ok {
				s += k + "=" + refir.String(v) + " "
			}
		}
		for _, mk := range []string{"m0", "m1"} {
			m, ok := st.Mems[expr.Key(mk)]
			if !ok {
				continue
			}
			s += mk + ":"
			for _, iv := range m.Blocks().Intervals() {
				s += fmt.Sprintf("[%#x,%#x)", iv.Begin(), iv.End())
			}
		}
		return s
	}
	storeReg := func(k string, e expr.Expr, w expr.Width, viaApply bool) bool {
		hist = append(hist, fmt.Sprintf("store(%s,%s,%d,apply=%v)", k, clip(refir.String(e)), w, viaApply))
		var ok bool = true
		pn, val, stack := mon.Try(func() {
			if viaApply {
				ok = st.Apply(expr.NewRegStore(e, expr.NewKey(k), w))
			} else {
				st.Regs.Store(expr.NewKey(k), e, w)
			}
		})
		c.Eval(1)
		if pn {
			c.Fail("C18.store.panic", nil, "register store panicked: %v\n%s\n%s", val, desc(), stack)
			return false
		}
		if !ok {
			c.Fail("C18.apply.regstore-refused", nil, "Apply(RegStore) returned false\n%s", desc())
			return false
		}
		sh[k] = &regShadow{ex: refir.Clone(e), w: int(w), print: refir.String(e), orig: e}
		return true
	}
	type pastVal struct {
		ex expr.Expr
		w  expr.Width
		k  string
	}
	var pastVals []pastVal
	for op := 0; op < 30 && !c.Failed(); op++ {
		k := keys[r.Intn(len(keys))]
		switch x := r.Intn(100); {
		case x < 35:
			e := g.Expr(r.Intn(3))
			w := gen.Width(r)
			if len(pastVals) > 0 && r.Intn(4) == 0 {
				// an earlier value (the same object, a structural copy, or what a Load
				// returned) written again, to the same or another register, with the old,
				// a narrower or a wider write width
				o := pastVals[r.Intn(len(pastVals))]
				e = o.ex
				if r.Intn(2) == 0 {
					e = refir.Clone(e)
				}
				switch r.Intn(4) {
				case 0:
					w = o.w
				case 1:
					if o.w > 1 {
						w = expr.Width(1 + r.Intn(int(o.w)-1))
					}
				case 2:
					if e.Width() > 1 {
						w = expr.Width(1 + r.Intn(int(e.Width())-1))
					}
				}
				if r.Intn(2) == 0 {
					k = o.k
				}
				c.Count("reg_stores_of_an_earlier_value", 1)
			}
			pastVals = append(pastVals, pastVal{e, w, k})
			if !storeReg(k, e, w, r.Intn(2) == 0) {
				return
			}
			c.Count("reg_stores", 1)
		case x < 75:
			w := gen.Width(r)
			var got expr.Expr
			var ok bool
			pn, val, stack := mon.Try(func() { got, ok = st.Regs.Load(expr.NewKey(k), w) })
			c.Eval(1)
			if pn {
				c.Fail("C18.load.panic", nil, "Load(%s,%d) panicked: %v\n%s\n%s", k, w, val, desc(), stack)
				return
			}
			s := sh[k]
			if s == nil {
				if ok || got != nil {
					c.Fail("C18.load.unwritten", nil, "Load(%s,%d) of an unwritten register returned (%v,%v)\n%s", k, w, got, ok, desc())
					return
				}
				c.Count("loads_unwritten", 1)
				continue
			}
			if !ok || got == nil {
				c.Fail("C18.load.missing", nil, "Load(%s,%d) of a written register failed\n%s", k, w, desc())
				return
			}
			if got.Width() != w {
				c.Fail("C18.load.width", nil, "Load(%s,%d) has width %d\n%s", k, w, got.Width(), desc())
				return
			}
			for ei, env := range envs {
				want := refir.Adjust(refir.Adjust(refir.Eval(s.ex, env), s.w), int(w))
				if gv := refir.Eval(got, env); gv.Cmp(want) != 0 {
					rel := "narrower"
					if int(w) > s.w {
						rel = "wider"
					} else if int(w) == s.w {
						rel = "equal"
					}
					c.Fail("C18.load.value", map[string]string{"read_vs_write_width": rel}, "env %d: Load(%s,%d) = %s evaluates to %x; last write %s at width %d gives %x\n%s", ei, k, w, clip(refir.String(got)), gv, clip(s.print), s.w, want, desc())
					return
				}
			}
			c.Count("loads", 1)
			if r.Intn(3) == 0 {
				pastVals = append(pastVals, pastVal{got, w, k})
			}
			if int(w) != s.w {
				c.Nontrivial(fmt.Sprintf("%s|%d|%d", s.print, s.w, w))
			}
		default:
			// memory store through Apply
			mk := []string{"m0", "m1"}[r.Intn(2)]
			val := g.Expr(r.Intn(2))
			w := gen.SmallWidth(r)
			var addr expr.Expr
			closed := r.Intn(2) == 0
			if closed {
				ga := gen.NewExprGen(r)
				ga.NoLoads = true
				ga.WidthFn = gen.SmallWidth
				addr = ga.Expr(r.Intn(3))
				if r.Intn(3) == 0 {
					addr = gen.Const(r, []expr.Width{8, 9, 16, 4}[r.Intn(4)])
				}
			} else {
				addr = g.Expr(1 + r.Intn(2))
			}
			hist = append(hist, fmt.Sprintf("apply(memstore %s[%s] := %s, %d)", mk, clip(refir.String(addr)), clip(refir.String(val)), w))
			before := snapshot()
			var ok bool
			pn, pv, stack := mon.Try(func() { ok = st.Apply(expr.NewMemStore(val, expr.NewKey(mk), addr, w)) })
			c.Eval(1)
			isClosed := refir.Closed(addr)
			if pn {
				// a store touching the last byte of the address space is the recorded
				// limitation of the sparse memory (see C03); not judged here
				{
					a := refir.Eval(addr, envs[0])
					lo := new(big.Int).And(a, new(big.Int).SetUint64(^uint64(0))).Uint64()
					if lo+uint64(w) < lo || lo+uint64(w) == 0 {
						c.Count("skipped_top_of_memory", 1)
						continue
					}
				}
				c.Fail("C18.apply.panic", nil, "Apply(MemStore) panicked: %v\n%s\n%s", pv, desc(), stack)
				return
			}
			if isClosed {
				if !ok {
					c.Fail("C18.apply.refuses-constant-address", nil, "Apply refused a memory store with the closed address %s\n%s", clip(refir.String(addr)), desc())
					return
				}
				a := refir.Eval(addr, envs[0])
				lo := new(big.Int).And(a, new(big.Int).SetUint64(^uint64(0))).Uint64()
				if lo+uint64(w) < lo {
					return
				}
				got, lok := st.Mems.Load(expr.NewKey(mk), model.Addr(lo), w)
				if !lok {
					c.Fail("C18.apply.stored-elsewhere", nil, "after Apply(MemStore) at %#x width %d the bytes are not readable there\n%s", lo, w, desc())
					return
				}
				for ei, env := range envs {
					want := refir.Adjust(refir.Eval(val, env), int(w))
					if gv := refir.Eval(got, env); gv.Cmp(want) != 0 {
						c.Fail("C18.apply.stored-value", nil, "env %d: memory %s[%#x] reads %x after storing %x\n%s", ei, mk, lo, gv, want, desc())
						return
					}
				}
				if memSh[mk] == nil {
					memSh[mk] = map[uint64]bool{}
				}
				c.Count("memstores_constant_address", 1)
			} else {
				// does the address genuinely depend on a register/memory value?
				depends := refir.Eval(addr, envs[0]).Cmp(refir.Eval(addr, envs[1])) != 0 || refir.Eval(addr, envs[0]).Cmp(refir.Eval(addr, envs[2])) != 0
				if !depends {
					c.Count("memstores_not_judged", 1)
					if ok {
						continue
					}
				}
				if ok && depends {
					c.Fail("C18.apply.accepts-symbolic-address", nil, "Apply accepted a memory store whose address %s depends on state\n%s", clip(refir.String(addr)), desc())
					return
				}
				if after := snapshot(); after != before {
					c.Fail("C18.apply.refused-but-changed", nil, "a refused memory store changed the state:\nbefore %s\nafter  %s\n%s", clip(before), clip(after), desc())
					return
				}
				c.Count("memstores_refused", 1)
			}
		}
	}
	// immutability of everything handed in
	for k, s := range sh {
		if refir.String(s.orig) != s.print {
			c.Fail("C18.alias", nil, "value stored to %s changed: %s -> %s", k, clip(s.print), clip(refir.String(s.orig)))
			return
		}
	}
	if st.Regs.Len() != len(sh) {
		c.Fail("C18.len", nil, "Len()=%d but %d registers written\n%s", st.Regs.Len(), len(sh), desc())
	}
	if c.WantSample() && len(hist) > 3 {
		c.Sample(hist[:3])
	}
}

func main() {
	mon.Main(mon.Spec{
		Prop:        "C18",
		Rule:        "case = history of 30 register stores (directly and through State.Apply), register reads and memory-store applications over 3 register keys and 2 memory spaces; widths boundary-biased 1..255, values of all node kinds, a quarter of the register stores re-writing an earlier value or a value a Load returned (same object or copy) with the old, a narrower or a wider write width; memory store addresses closed (constants and constant expressions, widths 4..16) or depending on registers/memory; non-trivial = read whose width differs from the last write width, distinct by (value, write width, read width)",
		Explanation: "oracle: Load(k,w) must evaluate (refir, 6 valuations) to adjust(adjust(last value, write width), w) and have width w; unwritten keys read (nil,false); Apply(MemStore) with a closed address must return true and the value must read back at address mod 2^64; with an address that takes different values on different valuations it must return false and leave a full snapshot of registers and memory blocks unchanged; addresses containing loads but constant in value are not judged",
		Assumptions: []string{"refir evaluator", "stores touching address 2^64-1 are excluded (recorded C03 finding)"},
		Cases: func(t string) int {
			if t == "thorough" {
				return 500000
			}
			return 50000
		},
		Floor: func(t string) int {
			if t == "thorough" {
				return 500000
			}
			return 30000
		},
		RequiredCounts: []string{"loads", "loads_unwritten", "memstores_refused", "memstores_constant_address", "reg_stores", "reg_stores_of_an_earlier_value"},
		Run:            run,
	})
}
