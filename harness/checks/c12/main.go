// C12 – width adaptation preserves value. Oracle: refir big-int evaluation.
package main

import (
	"mltwist/internal/exprtransform"
	"mltwist/pkg/expr"
	"mltwist/pkg/expr/exprtools"
	"mltwist/verifh/gen"
	"mltwist/verifh/mon"
	"mltwist/verifh/refir"
)

func clip(s string) string {
	if len(s) > 1500 {
		return s[:1500] + "..."
	}
	return s
}

func gadgetCount(e expr.Expr) int {
	n := 0
	for _, x := range refir.PreOrder(e) {
		if _, ok := exprtools.WidthGadgetArg(x); ok {
			n++
		}
	}
	return n
}

// onAddr reports whether some MemLoad address is (or contains at top) a width gadget.
func onAddr(e expr.Expr) bool {
	return refir.Has(e, func(x expr.Expr) bool {
		if m, ok := x.(expr.MemLoad); ok {
			_, g := exprtools.WidthGadgetArg(m.Addr())
			return g
		}
		return false
	})
}

func run(c *mon.Case) {
	r := c.Rng
	for sub := 0; sub < 8; sub++ {
		g := gen.NewExprGen(r)
		g.WidthGadgets = 20 + r.Intn(50)
		g.Gadgets = 5
		if r.Intn(3) == 0 {
			g.WidthFn = gen.SmallWidth
		}
		e := g.Expr(1 + r.Intn(5))
		src := refir.String(e)
		envs := refir.Envs(uint64(c.Idx)*8+uint64(sub)+uint64(c.Seed)<<20, 6)
		c.Eval(1)

		// --- SetWidth
		for k := 0; k < 3; k++ {
			w := g.WidthFn(r)
			if k == 0 {
				w = e.Width()
			}
			var s expr.Expr
			p, val, stack := mon.Try(func() { s = exprtransform.SetWidth(e, w) })
			if p {
				c.Fail("C12.setwidth.panic", nil, "SetWidth(%s, %d) panicked: %v\n%s", clip(src), w, val, stack)
				break
			}
			if s.Width() != w {
				c.Fail("C12.setwidth.width", nil, "SetWidth(%s, %d) = %s has width %d", clip(src), w, clip(refir.String(s)), s.Width())
				break
			}
			for i, env := range envs {
				want := refir.Adjust(refir.Eval(e, env), int(w))
				if got := refir.Eval(s, env); got.Cmp(want) != 0 {
					c.Fail("C12.setwidth.value", nil, "env %d: SetWidth(%s, %d) = %s evaluates to %x, want %x", i, clip(src), w, clip(refir.String(s)), got, want)
					break
				}
			}
			c.Count("setwidth", 1)
			// re-width the result again (narrow then widen back, widen then narrow, ...):
			// the second result must be the first one's value adjusted once more
			w2 := g.WidthFn(r)
			if r.Intn(2) == 0 {
				w2 = e.Width()
			}
			var s2 expr.Expr
			if p, val, stack := mon.Try(func() { s2 = exprtransform.SetWidth(s, w2) }); p {
				c.Fail("C12.setwidth.panic", nil, "SetWidth(SetWidth(%s, %d), %d) panicked: %v\n%s", clip(src), w, w2, val, stack)
				break
			}
			bad := s2.Width() != w2
			for i, env := range envs {
				want := refir.Adjust(refir.Adjust(refir.Eval(e, env), int(w)), int(w2))
				if got := refir.Eval(s2, env); bad || got.Cmp(want) != 0 {
					c.Fail("C12.setwidth.value", map[string]string{"when": "applied-twice"}, "env %d: SetWidth(SetWidth(%s, %d), %d) = %s (width %d) evaluates to %x, want %x", i, clip(src), w, w2, clip(refir.String(s2)), s2.Width(), got, want)
					break
				}
			}
			c.Count("setwidth_twice", 1)
		}
		// the same on a bare constant wider than the first target (the shape register and
		// memory values have)
		if sub%4 == 0 {
			k0 := gen.Const(r, gen.SmallWidth(r)+expr.Width(r.Intn(9)))
			w1, w2 := expr.Width(1+r.Intn(int(k0.Width()))), expr.Width(1+r.Intn(int(k0.Width())+3))
			var s2 expr.Expr
			if p, val, stack := mon.Try(func() { s2 = exprtransform.SetWidth(exprtransform.SetWidth(k0, w1), w2) }); p {
				c.Fail("C12.setwidth.panic", nil, "SetWidth(SetWidth(%s, %d), %d) panicked: %v\n%s", refir.String(k0), w1, w2, val, stack)
			} else {
				want := refir.Adjust(refir.Adjust(refir.Eval(k0, envs[0]), int(w1)), int(w2))
				if got := refir.Eval(s2, envs[0]); s2.Width() != w2 || got.Cmp(want) != 0 {
					c.Fail("C12.setwidth.value", map[string]string{"when": "constant-twice"}, "SetWidth(SetWidth(%s, %d), %d) = %s evaluates to %x, want %x", refir.String(k0), w1, w2, refir.String(s2), got, want)
				}
			}
			c.Count("setwidth_constant_twice", 1)
		}

		// --- PurgeWidthGadgets
		var pg expr.Expr
		p, val, stack := mon.Try(func() { pg = exprtransform.PurgeWidthGadgets(e) })
		if p {
			c.Fail("C12.purge.panic", nil, "PurgeWidthGadgets(%s) panicked: %v\n%s", clip(src), val, stack)
			continue
		}
		if pg.Width() != e.Width() {
			c.Fail("C12.purge.width", nil, "PurgeWidthGadgets(%s) = %s: width %d != %d", clip(src), clip(refir.String(pg)), pg.Width(), e.Width())
			continue
		}
		feat := map[string]string{"gadget_on_load_address": "no"}
		if onAddr(e) {
			feat["gadget_on_load_address"] = "yes"
			c.Count("purge_with_gadget_on_load_address", 1)
		}
		for i, env := range envs {
			a, b := refir.Eval(e, env), refir.Eval(pg, env)
			if a.Cmp(b) != 0 {
				c.Fail("C12.purge.value", feat, "env %d: %s = %x but PurgeWidthGadgets = %s = %x", i, clip(src), a, clip(refir.String(pg)), b)
				break
			}
		}
		if refir.String(e) != src {
			c.Fail("C12.input-mutated", nil, "input changed: %s", clip(src))
		}
		c.Count("purge", 1)
		if gadgetCount(pg) < gadgetCount(e) {
			c.Count("purge_removed_some", 1)
		}
		if gadgetCount(e) >= 2 {
			c.Nontrivial(src)
		}
		if c.WantSample() && len(src) < 300 && gadgetCount(e) >= 2 {
			c.Sample(map[string]string{"expr": src, "purged": refir.String(pg)})
		}
	}
}

func main() {
	mon.Main(mon.Spec{
		Prop:        "C12",
		Rule:        "case = random expression tree with raised width-gadget density (chains of 1-3 gadgets of growing/shrinking/mixed widths in every operand position incl. memory load addresses); SetWidth to the same/other widths, SetWidth applied again to its own result (also on bare constants: narrow then widen) and PurgeWidthGadgets; non-trivial = tree with >=2 width gadgets, distinct by S-expression",
		Explanation: "oracle: SetWidth(e,w) must have width w and value adjust(Eval(e),w); PurgeWidthGadgets(e) must keep width and value; both on 8 valuations by refir big-int evaluation (memory load addresses evaluated at their own width)",
		Assumptions: []string{"refir reference evaluator"},
		Cases: func(t string) int {
			if t == "thorough" {
				return 400000
			}
			return 36000
		},
		Floor: func(t string) int {
			if t == "thorough" {
				return 800000
			}
			return 15000
		},
		RequiredCounts: []string{"setwidth_twice", "setwidth_constant_twice", "purge_with_gadget_on_load_address", "purge_removed_some", "setwidth"},
		Run:            run,
	})
}
