// C26 – start-up is total over input files. Two tiers: the production binary under
// a pty, and the same loading pipeline in-process for volume.
package main

import (
	"bytes"
	"fmt"
	"math/rand"
	"os"
	"os/exec"
	"path/filepath"
	"strings"
	"time"

	"mltwist/internal/deps"
	"mltwist/internal/elf"
	"mltwist/internal/parser"
	"mltwist/internal/riscv"
	"mltwist/internal/state/memory"
	"mltwist/verifh/elfgen"
	"mltwist/verifh/emuchk"
	"mltwist/verifh/mon"
	"mltwist/verifh/ptyx"
	"mltwist/verifh/refrv"
)

var workDir, binPath string

// binFile is private to one run (parent pid in the name, handed to the shards through the
// environment): concurrent runs against different trees must not share the binary.
func binFile() string {
	if p := os.Getenv("VERIF_BIN_C26"); p != "" {
		return p
	}
	p := filepath.Join(os.Getenv("VERIF_DIR"), "work", fmt.Sprintf("mltwist-c26-%d", os.Getpid()))
	os.Setenv("VERIF_BIN_C26", p)
	return p
}

func parentSetup(string) error {
	repo := os.Getenv("VERIF_REPO_DIR")
	if repo == "" {
		repo = "/repo"
	}
	cmd := exec.Command("go", "build", "-o", binFile(), "./cmd/mltwist")
	cmd.Dir = repo
	cmd.Env = append(os.Environ(), "GOFLAGS=-mod=mod", "GOPROXY=off", "GOSUMDB=off", "GOTOOLCHAIN=local")
	out, err := cmd.CombinedOutput()
	if err != nil {
		return fmt.Errorf("building cmd/mltwist (hooks off): %v\n%s", err, out)
	}
	return nil
}

func childSetup(string) {
	workDir = filepath.Join(os.Getenv("VERIF_DIR"), "work", fmt.Sprintf("c26-files-%d", os.Getpid()))
	os.MkdirAll(workDir, 0o755)
	binPath = binFile()
}

// validFile builds a loadable RV64 ELF around a generated program.
func validFile(r *rand.Rand) *elfgen.File {
	prog := emuchk.Generate(r, 4+r.Intn(30))
	code := prog.Bytes()
	f := &elfgen.File{Class64: true, Type: 2, Machine: 243, Entry: emuchk.Code}
	data := make([]byte, 16+r.Intn(32))
	r.Read(data)
	f.Segs = []elfgen.Seg{
		{Type: elfgen.PTLoad, Flags: 5, Vaddr: emuchk.Code, Filesz: uint64(len(code)), Memsz: uint64(len(code)), Data: code},
		{Type: elfgen.PTLoad, Flags: 6, Vaddr: emuchk.Data, Filesz: uint64(len(data)), Memsz: uint64(len(data)) + uint64(r.Intn(64)), Data: data},
	}
	f.Secs = []elfgen.Sec{
		{Name: ".text", Type: elfgen.SHTProgbits, Flags: elfgen.SHFAlloc | elfgen.SHFExec, Addr: emuchk.Code, Size: uint64(len(code)), Data: code},
		{Name: ".data", Type: elfgen.SHTProgbits, Flags: elfgen.SHFAlloc | elfgen.SHFWrite, Addr: emuchk.Data, Size: uint64(len(data)), Data: data},
	}
	return f
}

// makeInput produces file content and a class label.
func makeInput(r *rand.Rand) ([]byte, string) {
	switch k := r.Intn(130); {
	case k >= 120:
		// code whose length is not a multiple of the instruction size: 1-3 trailing bytes
		// that look like the beginning of an instruction (opcodes identified by their
		// first byte or two), or garbage; in .text alone or followed by another section
		f := validFile(r)
		tails := [][]byte{{0x37}, {0x17}, {0x6f}, {0x13, 0x00}, {0x03, 0x20, 0x05}, {0x63, 0x00}, {0x23, 0x20, 0x00}, {0x67, 0x80}, {0xef}, {0x33}, {0xff, 0xff}, {0x00}}
		tail := tails[r.Intn(len(tails))]
		if r.Intn(4) == 0 {
			tail = make([]byte, 1+r.Intn(3))
			r.Read(tail)
		}
		code := append(append([]byte(nil), f.Secs[0].Data...), tail...)
		f.Secs[0].Data, f.Secs[0].Size = code, uint64(len(code))
		f.Segs[0].Data, f.Segs[0].Filesz, f.Segs[0].Memsz = code, uint64(len(code)), uint64(len(code))
		bs, _ := f.Bytes()
		return bs, "ragged-code"
	case k >= 110:
		// entry point anywhere around the code: inside every instruction (also the last
		// one of a block and of the image), at the end, outside, zero
		f := validFile(r)
		n := uint64(len(f.Secs[0].Data))
		switch r.Intn(6) {
		case 0:
			f.Entry = emuchk.Code + uint64(r.Intn(int(n)+8))
		case 1:
			f.Entry = emuchk.Code + n - uint64(1+r.Intn(3)) // inside the last instruction
		case 2:
			f.Entry = emuchk.Code + 4*uint64(r.Intn(int(n/4))) + uint64(1+r.Intn(3))
		case 3:
			f.Entry = emuchk.Code + n
		case 4:
			f.Entry = emuchk.Code - uint64(1+r.Intn(8))
		default:
			f.Entry = []uint64{0, 1, ^uint64(0), emuchk.Data, 1 << 63}[r.Intn(5)]
		}
		bs, _ := f.Bytes()
		return bs, "bad-entry"
	case k >= 100:
		// constant jumps and branches to arbitrary even offsets: into the middle of any
		// instruction (their own, the last of a block, the last of the image), just
		// outside the code, far away
		f := validFile(r)
		code := f.Secs[0].Data
		nw := len(code) / 4
		for j := 0; j < 1+r.Intn(3); j++ {
			i := r.Intn(nw)
			var off int64
			switch r.Intn(5) {
			case 0:
				off = 2 // inside itself
			case 1:
				off = int64(4*(r.Intn(nw)-i)) + 2
			case 2:
				off = int64(4*(nw-i)) - 2 // inside the last instruction of the image
			case 3:
				off = int64(4*(nw-i)) + int64(2*r.Intn(4)) // at or just behind the end
			default:
				off = int64(2 * (r.Intn(2*nw+8) - nw - 4))
			}
			var w uint32
			if r.Intn(2) == 0 {
				w = refrv.EncImmJ(0x6f|uint32(r.Intn(2))<<7, off) // jal x0/x1
			} else {
				w = refrv.EncImmB(0x63|uint32(r.Intn(2))<<12|uint32(r.Intn(8))<<15|uint32(r.Intn(8))<<20, off) // beq/bne
			}
			copy(code[4*i:], []byte{byte(w), byte(w >> 8), byte(w >> 16), byte(w >> 24)})
		}
		f.Segs[0].Data = code
		bs, _ := f.Bytes()
		return bs, "wild-jumps"
	case k < 25:
		bs, _ := validFile(r).Bytes()
		return bs, "valid"
	case k < 45:
		bs, marks := validFile(r).Bytes()
		n := r.Intn(len(bs) + 1)
		if r.Intn(2) == 0 {
			n = marks[r.Intn(len(marks))] + r.Intn(3) - 1
		}
		if n < 0 {
			n = 0
		}
		if n > len(bs) {
			n = len(bs)
		}
		return bs[:n], "truncated"
	case k < 62:
		bs, _ := validFile(r).Bytes()
		for i := 0; i < 1+r.Intn(3); i++ {
			var pos int
			if r.Intn(2) == 0 {
				pos = r.Intn(64 + 2*56)
			} else {
				pos = len(bs) - 1 - r.Intn(4*64)
			}
			if pos >= 0 && pos < len(bs) {
				bs[pos] ^= byte(1 << uint(r.Intn(8)))
			}
		}
		return bs, "bitflip"
	case k < 72:
		f := validFile(r)
		r.Read(f.Secs[0].Data) // not RISC-V
		bs, _ := f.Bytes()
		return bs, "non-riscv-code"
	case k < 80:
		f := validFile(r)
		// huge sizes
		i := r.Intn(2)
		f.Segs[i].Memsz = []uint64{1 << 31, 1 << 40, 1 << 62, ^uint64(0)}[r.Intn(4)]
		if r.Intn(2) == 0 {
			f.Secs[0].Size = 1 << 62
		}
		bs, _ := f.Bytes()
		return bs, "huge-sizes"
	case k < 90:
		bs, _ := elfgen.Random(r).Bytes()
		return bs, "random-elf"
	case k < 95:
		bs := make([]byte, r.Intn(200))
		r.Read(bs)
		if r.Intn(2) == 0 {
			copy(bs, "\x7fELF")
		}
		return bs, "non-elf"
	default:
		return nil, "empty"
	}
}

func crashed(out []byte) bool {
	return bytes.Contains(out, []byte("panic:")) || bytes.Contains(out, []byte("fatal error:")) || bytes.Contains(out, []byte("goroutine 1 ["))
}

const nBinQuick, nBinThorough = 400, 8000

func nBin(t string) int {
	if t == "thorough" {
		return nBinThorough
	}
	return nBinQuick
}

func run(c *mon.Case) {
	r := c.Rng
	if c.Idx < nBin(c.Tier) {
		runBinary(c, r)
		return
	}
	for i := 0; i < 10; i++ {
		runInProcess(c, r)
	}
}

func runBinary(c *mon.Case, r *rand.Rand) {
	path := filepath.Join(workDir, fmt.Sprintf("in-%d.elf", c.Idx))
	defer os.Remove(path)
	var args []string
	class := ""
	switch k := r.Intn(20); {
	case k == 0:
		args, class = nil, "no-args"
	case k == 1:
		args, class = []string{path, path}, "two-args"
	case k == 2:
		args, class = []string{filepath.Join(workDir, "does-not-exist")}, "missing-file"
	case k == 3:
		args, class = []string{workDir}, "directory"
	default:
		bs, cl := makeInput(r)
		class = cl
		if err := os.WriteFile(path, bs, 0o644); err != nil {
			c.Fail("C26.harness", nil, "write: %v", err)
			return
		}
		args = []string{path}
	}
	rows := []int{24, 1, 5, 8, 80, 2, 40}[r.Intn(7)]
	// quit sequence; extra lines answer "press ENTER" prompts and value prompts
	input := []byte("q\n\n\nq\n\n\nq\n\n")
	sh := `ulimit -v 2097152; exec "$0" "$@"`
	argv := append([]string{"/bin/sh", "-c", sh, binPath}, args...)
	res, err := ptyx.Run(argv, rows, 80, input, 20*time.Second, []string{"PATH=/usr/bin:/bin", "TERM=xterm", "GOTRACEBACK=single"})
	c.Eval(1)
	if err != nil {
		c.Fail("C26.harness", nil, "pty run failed: %v", err)
		return
	}
	out := res.Output
	tail := string(out)
	if len(tail) > 1200 {
		tail = tail[len(tail)-1200:]
	}
	feat := map[string]string{"class": class}
	c.Count("binary_runs_"+class, 1)
	switch {
	case res.TimedOut:
		c.Count("binary_runs_hung", 1)
		return
	case res.ExitCode == -1:
		c.Fail("C26.binary.signal", feat, "mltwist %v (%s, %d rows) was killed by signal %s\n%s", args, class, rows, res.Signal, tail)
		return
	case crashed(out):
		c.Fail("C26.binary.crash", feat, "mltwist %v (%s, %d rows) crashed (exit %d)\n%s", args, class, rows, res.ExitCode, tail)
		return
	}
	enteredUI := bytes.Contains(out, []byte("Enter command:")) || bytes.Contains(out, []byte("screen height is not sufficient")) || bytes.Contains(out, []byte("leaving app"))
	if res.ExitCode != 0 {
		if !bytes.Contains(out, []byte("mltwist:")) {
			c.Fail("C26.binary.no-message", feat, "mltwist %v (%s) exited with status %d without an error message\n%q", args, class, res.ExitCode, tail)
			return
		}
		c.Count("binary_error_exits", 1)
	} else {
		if !enteredUI {
			c.Fail("C26.binary.silent-success", feat, "mltwist %v (%s) exited with status 0 without entering the UI\n%q", args, class, tail)
			return
		}
		c.Count("binary_ui_entered", 1)
	}
	c.Nontrivial(fmt.Sprintf("bin|%s|%d|%x", class, rows, r.Int63()))
	if c.WantSample() {
		c.Sample(map[string]any{"args_class": class, "rows": rows, "exit": res.ExitCode, "entered_ui": enteredUI})
	}
}

var rvParser = riscv.NewParser(riscv.Variant64, riscv.ExtM, riscv.ExtA)

func runInProcess(c *mon.Case, r *rand.Rand) {
	bs, class := makeInput(r)
	path := filepath.Join(workDir, fmt.Sprintf("ip-%d.elf", c.Idx))
	defer os.Remove(path)
	if err := os.WriteFile(path, bs, 0o644); err != nil {
		c.Fail("C26.harness", nil, "write: %v", err)
		return
	}
	stage := "open"
	reached := ""
	pn, val, stack := mon.Try(func() {
		p, err := elf.NewParser(path)
		if err != nil {
			return
		}
		defer p.Close()
		stage = "machine-code"
		code, err := p.MachineCode()
		if err != nil {
			return
		}
		stage = "memory"
		mem, err := p.Memory()
		if err != nil {
			return
		}
		stage = "parse"
		reached = "parse"
		ins, err := parser.Parse(code, rvParser)
		if err != nil {
			return
		}
		stage = "code-model"
		prog, err := deps.NewCode(p.Entrypoint(), ins)
		if err != nil {
			return
		}
		stage = "byte-memory"
		blocks := make([]memory.ByteBlock, len(mem.Blocks))
		for i, b := range mem.Blocks {
			blocks[i] = b
		}
		if _, err := memory.NewBytes(blocks); err != nil {
			return
		}
		_ = prog
		reached = "ui"
	})
	c.Eval(1)
	c.Count("inprocess_"+class, 1)
	if pn {
		c.Fail("C26.inprocess.panic", map[string]string{"stage": stage, "site": mon.PanicSite(stack)}, "loading a %s file (%d bytes) panicked at stage %s: %v\n%s", class, len(bs), stage, val, stack)
		return
	}
	if reached != "" {
		c.Count("inprocess_reached_"+reached, 1)
		c.Nontrivial(fmt.Sprintf("ip|%s|%x", class, bs[:min(len(bs), 200)]))
	}
}

func min(a, b int) int {
	if a < b {
		return a
	}
	return b
}

func main() {
	mon.Main(mon.Spec{
		Prop:        "C26",
		Rule:        "case = input file and argument vector: valid RV64 ELF files around generated programs, truncations (random and at structural boundaries), header bit flips, non-RISC-V code, huge segment/section sizes, entry points at every offset in and around the code (inside any instruction incl. the last of a block), constant jumps/branches rewritten to arbitrary even offsets (into the middle of instructions, behind the end), code sections with 1-3 trailing bytes that begin an instruction, random ELF models, non-ELF content, empty file, directory, missing path, 0 and 2 arguments; the first 400 (thorough 8000) cases run the production binary under a pty with window heights {1,2,5,8,24,40,80} and a quit script, the rest run the identical loading pipeline in-process (10 files per case); non-trivial = binary run that ended (error exit or UI entered), or in-process file that reached instruction parsing; distinct by content",
		Explanation: "oracle: the production binary (built from the tree under test with the hook guard off) must not die by a signal or with a Go crash, must print 'mltwist: ...' when exiting non-zero, and must have entered the UI when exiting zero; hung runs are counted, not judged; in-process: elf.NewParser -> MachineCode -> Memory -> parser.Parse -> deps.NewCode -> memory.NewBytes must not panic",
		Assumptions: []string{"binary runs under ulimit -v 2 GiB and a 20 s watchdog", "pty via /dev/ptmx"},
		Cases: func(t string) int {
			if t == "thorough" {
				return nBinThorough + 60000
			}
			return nBinQuick + 2000
		},
		Floor: func(t string) int {
			if t == "thorough" {
				return 40000
			}
			return 1500
		},
		ParentSetup:    parentSetup,
		ChildSetup:     childSetup,
		RlimitAS:       6 << 30,
		RequiredCounts: []string{"inprocess_bad-entry", "inprocess_wild-jumps", "inprocess_ragged-code", "binary_ui_entered", "binary_error_exits", "inprocess_reached_ui", "inprocess_reached_parse", "binary_runs_valid", "binary_runs_truncated", "binary_runs_bitflip"},
		Run:            run,
	})
}

var _ = strings.TrimSpace
