// C08 – basic blocks partition the code exactly where control flow requires.
package main

import (
	"fmt"
	"sort"
	"strings"

	"mltwist/internal/deps"
	"mltwist/internal/parser"
	"mltwist/pkg/model"
	"mltwist/verifh/depgen"
	"mltwist/verifh/mon"
)

func run(c *mon.Case) {
	r := c.Rng
	n := r.Intn(41)
	if r.Intn(20) == 0 {
		n = 0
	}
	// address layout with gaps
	base := []uint64{0x100, 0, 0x7ffffff0, 1<<63 - 64, 1<<63 - 8, 1 << 63, 0xffffffff80000000, 1<<64 - 0x1000}[r.Intn(8)]
	type slot struct {
		addr uint64
		len  int
	}
	var slots []slot
	cur := base
	for i := 0; i < n; i++ {
		if i > 0 && r.Intn(6) == 0 {
			cur += uint64(1 + r.Intn(12)) // gap
		}
		l := 1 + r.Intn(8)
		if r.Intn(2) == 0 {
			l = 4
		}
		slots = append(slots, slot{cur, l})
		cur += uint64(l)
	}
	starts := map[uint64]bool{}
	for _, s := range slots {
		starts[s.addr] = true
	}
	// candidate targets
	target := func(valid bool) uint64 {
		if len(slots) == 0 {
			return base + uint64(r.Intn(16))
		}
		s := slots[r.Intn(len(slots))]
		if valid {
			return s.addr
		}
		switch r.Intn(4) {
		case 0:
			if s.len > 1 {
				return s.addr + 1 + uint64(r.Intn(s.len-1)) // inside an instruction
			}
			return cur // end of code
		case 1:
			return cur + uint64(r.Intn(20)) // behind all code (cur itself = end: not a start)
		case 2:
			if base > 0 {
				return base - 1 - uint64(r.Intn(int(min64(base, 16)))) // before all code
			}
			return cur + 3
		default: // inside a gap, if any
			for i := 1; i < len(slots); i++ {
				if e := slots[i-1].addr + uint64(slots[i-1].len); e != slots[i].addr {
					return e
				}
			}
			return cur + 1
		}
	}
	badStream := r.Intn(4) == 0
	var ins []depgen.Ins
	for i, s := range slots {
		if r.Intn(4) == 0 || i == len(slots)-1 && r.Intn(2) == 0 {
			var ts []uint64
			for k := 0; k < 3; k++ {
				ts = append(ts, target(!(badStream && r.Intn(4) == 0)))
			}
			if r.Intn(5) == 0 {
				ts = []uint64{s.addr} // self jump
			}
			if r.Intn(8) == 0 && i+1 < len(slots) {
				ts = []uint64{slots[i+1].addr} // may be the fall-through address or across a gap
			}
			ins = append(ins, depgen.Jump(r, s.addr, s.len, ts))
		} else {
			ins = append(ins, depgen.Body(r, s.addr, s.len, 4))
		}
	}
	entry := target(r.Intn(6) != 0)
	// ---- reference partition
	sorted := append([]depgen.Ins(nil), ins...)
	sort.Slice(sorted, func(i, j int) bool { return sorted[i].Addr < sorted[j].Addr })
	fail := !starts[entry]
	cutBefore := map[uint64]bool{entry: true}
	for _, in := range sorted {
		for _, t := range in.Facts.ConstTargets {
			if !starts[t] {
				fail = true
			}
			cutBefore[t] = true
		}
	}
	var want [][]uint64
	if !fail {
		var curb []uint64
		for i, in := range sorted {
			if len(curb) > 0 && cutBefore[in.Addr] {
				want = append(want, curb)
				curb = nil
			}
			curb = append(curb, in.Addr)
			last := i == len(sorted)-1
			if last || in.Facts.RealJump() || in.End() != sorted[i+1].Addr {
				want = append(want, curb)
				curb = nil
			}
		}
	}
	// ---- product
	seq := make([]parser.Instruction, len(ins))
	perm := r.Perm(len(ins)) // unsorted input order
	for i, p := range perm {
		seq[i] = ins[p].Parser()
	}
	var code *deps.Code
	var err error
	pn, val, stack := mon.Try(func() { code, err = deps.NewCode(model.Addr(entry), seq) })
	c.Eval(1)
	desc := fmt.Sprintf("entry=%#x\n%s", entry, depgen.Listing(sorted))
	if pn {
		c.Fail("C08.panic", map[string]string{"site": mon.PanicSite(stack), "empty": fmt.Sprint(len(ins) == 0)}, "NewCode panicked: %v\n%s\n%s", val, desc, stack)
		return
	}
	if fail {
		c.Count("streams_must_fail", 1)
		c.Nontrivial("fail|" + desc)
		if err == nil {
			c.Fail("C08.accepts-bad-target", nil, "NewCode accepted a stream whose entry point or a constant jump target is not an instruction start (%d blocks)\n%s", code.Len(), desc)
		}
		return
	}
	if err != nil {
		c.Fail("C08.rejects-good-stream", nil, "NewCode rejected a stream with valid entry and targets: %v\n%s", err, desc)
		return
	}
	var got [][]uint64
	for _, b := range code.Blocks() {
		var as []uint64
		for _, in := range b.Instructions() {
			as = append(as, uint64(in.OrigAddr()))
		}
		got = append(got, as)
		if len(as) == 0 || uint64(b.Begin()) != as[0] {
			c.Fail("C08.block-bounds", nil, "block begins at %#x but its first instruction is %v\n%s", b.Begin(), as, desc)
			return
		}
	}
	if fmt.Sprint(got) != fmt.Sprint(want) {
		c.Fail("C08.partition", nil, "blocks %s, reference partition %s\n%s", hexes(got), hexes(want), desc)
		return
	}
	if code.NumInstr() != len(ins) || uint64(code.Entrypoint()) != entry {
		c.Fail("C08.meta", nil, "NumInstr=%d Entrypoint=%#x\n%s", code.NumInstr(), code.Entrypoint(), desc)
		return
	}
	c.Count("streams_ok", 1)
	c.Count("blocks", len(want))
	if len(want) >= 3 {
		c.Nontrivial("ok|" + desc)
	}
	if c.WantSample() && len(ins) > 2 && len(ins) < 9 {
		c.Sample(map[string]any{"entry": fmt.Sprintf("%#x", entry), "stream": strings.Split(strings.TrimSpace(depgen.Listing(sorted)), "\n"), "blocks": hexes(want)})
	}
}

func min64(a, b uint64) uint64 {
	if a < b {
		return a
	}
	return b
}

func hexes(bs [][]uint64) string {
	var sb strings.Builder
	for _, b := range bs {
		sb.WriteString("[")
		for i, a := range b {
			if i > 0 {
				sb.WriteString(" ")
			}
			fmt.Fprintf(&sb, "%#x", a)
		}
		sb.WriteString("]")
	}
	return sb.String()
}

func main() {
	mon.Main(mon.Spec{
		Prop:        "C08",
		Rule:        "case = synthetic instruction stream of 0..40 instructions (lengths 1..8, gaps, unsorted input) with constant, conditional (one/both arms constant), indirect, self and next-instruction jumps, targets at/inside/outside instructions and in gaps, valid or invalid entry point; non-trivial = stream that must fail, or stream producing >=3 blocks; distinct by listing",
		Explanation: "oracle: cut set computed from the statement with an own enumeration of IP-store alternatives: fail iff the entry or a constant target is not an instruction start; otherwise cut after every instruction with a real target, at address gaps, before every constant target and the entry, nowhere else; compared with Code.Blocks() by original addresses",
		Assumptions: []string{"refir evaluation of closed jump alternatives", "instructions do not overlap; one IP store per instruction of width 8"},
		Cases: func(t string) int {
			if t == "thorough" {
				return 1500000
			}
			return 60000
		},
		Floor: func(t string) int {
			if t == "thorough" {
				return 300000
			}
			return 15000
		},
		RequiredCounts: []string{"streams_must_fail", "streams_ok", "blocks"},
		Run:            run,
	})
}
