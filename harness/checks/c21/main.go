// C21 – code parsing tiles the code image.
package main

import (
	"fmt"
	"math/rand"
	"sort"

	"mltwist/internal/elf"
	"mltwist/internal/parser"
	"mltwist/internal/riscv"
	"mltwist/pkg/expr"
	"mltwist/pkg/model"
	"mltwist/verifh/mon"
	"mltwist/verifh/refir"
	"mltwist/verifh/refrv"
	"mltwist/verifh/rvgen"
)

type det struct{ name, text string }

func (d det) Name() string   { return d.name }
func (d det) String() string { return d.text }

// stub is a well-behaved parser with instruction lengths 1..6: the low 3 bits of
// the first byte give the length, 0 and 7 are undecodable.
type stub struct{ calls *int }

func stubLen(b byte) int {
	l := int(b & 7)
	if l == 0 || l == 7 {
		return 0
	}
	return l
}

func (s stub) Parse(addr model.Addr, b []byte) (model.Instruction, error) {
	*s.calls++
	if len(b) == 0 {
		return model.Instruction{}, fmt.Errorf("empty")
	}
	l := stubLen(b[0])
	if l == 0 {
		return model.Instruction{}, fmt.Errorf("undecodable first byte %#x", b[0])
	}
	if len(b) < l {
		return model.Instruction{}, fmt.Errorf("truncated")
	}
	return model.Instruction{ByteLen: model.Addr(l),
		Effects: []expr.Effect{expr.NewRegStore(expr.NewConstUint(uint64(addr), 8), "r", 8)},
		Details: det{"s", fmt.Sprintf("s %d", l)}}, nil
}

type block struct {
	begin uint64
	data  []byte
}

func layout(r *rand.Rand, n int, lens func() int, wide bool) []block {
	var out []block
	cur := uint64(0x1000)
	switch r.Intn(4) {
	case 0:
		cur = 4
	case 1:
		cur = 1<<32 - 64
		if wide {
			// 64-bit address space: around 2^63 (a block straddling it or ending exactly
			// there), the upper half, near the top without wrapping
			cur = []uint64{1<<63 - 64, 1<<63 - 16, 1<<63 - 4, 1 << 63, 0xffffffff80000000, 1<<64 - 0x1000, 1<<32 - 64}[r.Intn(7)]
			if r.Intn(2) == 0 {
				cur -= cur % 4
			}
		}
	}
	for i := 0; i < n; i++ {
		cur += uint64(r.Intn(3)) * uint64(1+r.Intn(40)) // gap 0 => adjacent blocks
		b := block{begin: cur, data: make([]byte, lens())}
		out = append(out, b)
		cur += uint64(len(b.data))
	}
	r.Shuffle(len(out), func(i, j int) { out[i], out[j] = out[j], out[i] })
	return out
}

func mkMemory(bs []block) (*elf.Memory, error) {
	begins := make([]model.Addr, len(bs))
	datas := make([][]byte, len(bs))
	for i, b := range bs {
		begins[i], datas[i] = model.Addr(b.begin), b.data
	}
	return elf.VerifNewMemory(begins, datas)
}

func desc(bs []block) string {
	s := ""
	for _, b := range bs {
		s += fmt.Sprintf("[%#x: %x] ", b.begin, b.data)
	}
	if len(s) > 1500 {
		s = s[:1500] + "..."
	}
	return s
}

var cfgs = refrv.AllCfgs()
var parsers = map[refrv.Cfg]riscv.Parser{}

func rvParser(c refrv.Cfg) riscv.Parser {
	p, ok := parsers[c]
	if !ok {
		p = rvgen.Parser(c)
		parsers[c] = p
	}
	return p
}

// effectsEquivalent compares kind, key, width and operand values on valuations.
func effectsEquivalent(a, b []expr.Effect, seed uint64) string {
	if len(a) != len(b) {
		return fmt.Sprintf("%d effects vs %d", len(a), len(b))
	}
	for i := range a {
		switch x := a[i].(type) {
		case expr.RegStore:
			y, ok := b[i].(expr.RegStore)
			if !ok || x.Key() != y.Key() || x.Width() != y.Width() {
				return fmt.Sprintf("effect %d: %s vs %s", i, refir.EffectString(a[i]), refir.EffectString(b[i]))
			}
			for _, env := range refir.Envs(seed, 3) {
				if refir.Adjust(refir.Eval(x.Value(), env), int(x.Width())).Cmp(refir.Adjust(refir.Eval(y.Value(), env), int(y.Width()))) != 0 {
					return fmt.Sprintf("effect %d value differs: %s vs %s", i, refir.EffectString(a[i]), refir.EffectString(b[i]))
				}
			}
		case expr.MemStore:
			y, ok := b[i].(expr.MemStore)
			if !ok || x.Key() != y.Key() || x.Width() != y.Width() {
				return fmt.Sprintf("effect %d: %s vs %s", i, refir.EffectString(a[i]), refir.EffectString(b[i]))
			}
			for _, env := range refir.Envs(seed, 3) {
				if refir.Eval(x.Addr(), env).Cmp(refir.Eval(y.Addr(), env)) != 0 ||
					refir.Adjust(refir.Eval(x.Value(), env), int(x.Width())).Cmp(refir.Adjust(refir.Eval(y.Value(), env), int(y.Width()))) != 0 {
					return fmt.Sprintf("effect %d operands differ: %s vs %s", i, refir.EffectString(a[i]), refir.EffectString(b[i]))
				}
			}
		}
	}
	return ""
}

type expIns struct {
	addr  uint64
	bytes []byte
}

func run(c *mon.Case) {
	r := c.Rng
	if c.Idx%3 == 0 {
		runStub(c, r)
	} else {
		runRV(c, r)
	}
}

func sorted(bs []block) []block {
	s := append([]block(nil), bs...)
	sort.Slice(s, func(i, j int) bool { return s[i].begin < s[j].begin })
	return s
}

func runStub(c *mon.Case, r *rand.Rand) {
	bs := layout(r, 1+r.Intn(5), func() int { return 1 + r.Intn(30) }, true)
	bad := r.Intn(3) == 0
	for bi := range bs {
		// fill with a valid tiling first
		d := bs[bi].data
		for i := 0; i < len(d); {
			l := 1 + r.Intn(6)
			if i+l > len(d) {
				l = len(d) - i
			}
			d[i] = byte(r.Intn(32))<<3 | byte(l)
			for j := 1; j < l; j++ {
				d[i+j] = byte(r.Intn(256))
			}
			i += l
		}
	}
	if bad {
		b := &bs[r.Intn(len(bs))]
		b.data[r.Intn(len(b.data))] = byte(r.Intn(256)) // may corrupt a first byte, a length or nothing
	}
	// expected walk
	var want []expIns
	fail := false
	for _, b := range sorted(bs) {
		for i := 0; i < len(b.data); {
			l := stubLen(b.data[i])
			if l == 0 || i+l > len(b.data) {
				fail = true
				break
			}
			want = append(want, expIns{b.begin + uint64(i), b.data[i : i+l]})
			i += l
		}
		if fail {
			break
		}
	}
	mem, err := mkMemory(bs)
	if err != nil {
		c.Fail("C21.harness", nil, "memory rejected: %v", err)
		return
	}
	calls := 0
	var got []parser.Instruction
	p, val, stack := mon.Try(func() { got, err = parser.Parse(mem, stub{&calls}) })
	c.Eval(1)
	feat := map[string]string{"parser": "stub"}
	if p {
		c.Fail("C21.panic", feat, "Parse panicked on %s: %v\n%s", desc(bs), val, stack)
		return
	}
	compare(c, feat, bs, want, fail, got, err, nil)
	c.Count("stub_images", 1)
}

func runRV(c *mon.Case, r *rand.Rand) {
	cfg := cfgs[r.Intn(len(cfgs))]
	defs := refrv.DefsFor(cfg)
	odd := r.Intn(4) == 0
	bs := layout(r, 1+r.Intn(5), func() int {
		n := 4 * (1 + r.Intn(10))
		if odd && r.Intn(2) == 0 {
			n += 1 + r.Intn(3) // truncated last word
		}
		return n
	}, cfg.XLEN == 64)
	for bi := range bs {
		d := bs[bi].data
		for i := 0; i+4 <= len(d); i += 4 {
			copy(d[i:], rvgen.LE(rvgen.Word(r, defs[r.Intn(len(defs))])))
		}
		zeroTail := r.Intn(2) == 0 // truncated tails of zero bytes (padding) and of garbage
		for i := len(d) &^ 3; i < len(d); i++ {
			d[i] = byte(r.Intn(256))
			if zeroTail {
				d[i] = 0
			}
		}
	}
	if r.Intn(3) == 0 { // undecodable word at first / middle / last position of some block
		b := &bs[r.Intn(len(bs))]
		nw := len(b.data) / 4
		pos := []int{0, nw / 2, nw - 1}[r.Intn(3)]
		var w uint32
		for {
			w = r.Uint32()
			switch r.Intn(4) {
			case 0:
				w = 0 // the defined illegal instruction; zero padding
			case 1:
				w = 0xffffffff
			}
			if _, ok := refrv.Decode(cfg, w); !ok {
				break
			}
		}
		copy(b.data[4*pos:], rvgen.LE(w))
		if w == 0 && r.Intn(2) == 0 { // everything up to the end of the block is zero
			for i := 4 * pos; i < len(b.data); i++ {
				b.data[i] = 0
			}
		}
	}
	var want []expIns
	fail := false
	for _, b := range sorted(bs) {
		for i := 0; i < len(b.data); i += 4 {
			if i+4 > len(b.data) {
				fail = true
				break
			}
			w := uint32(b.data[i]) | uint32(b.data[i+1])<<8 | uint32(b.data[i+2])<<16 | uint32(b.data[i+3])<<24
			if _, ok := refrv.Decode(cfg, w); !ok {
				fail = true
				break
			}
			want = append(want, expIns{b.begin + uint64(i), b.data[i : i+4]})
		}
		if fail {
			break
		}
	}
	mem, err := mkMemory(bs)
	if err != nil {
		c.Fail("C21.harness", nil, "memory rejected: %v", err)
		return
	}
	var got []parser.Instruction
	p, val, stack := mon.Try(func() { got, err = parser.Parse(mem, rvParser(cfg)) })
	c.Eval(1)
	feat := map[string]string{"parser": "riscv"}
	if p {
		c.Fail("C21.panic", feat, "Parse(%s) panicked on %s: %v\n%s", cfg, desc(bs), val, stack)
		return
	}
	compare(c, feat, bs, want, fail, got, err, func(i int, g parser.Instruction) string {
		direct, derr := rvParser(cfg).Parse(g.Addr, want[i].bytes)
		if derr != nil {
			return "front end rejects the word: " + derr.Error()
		}
		if g.Details == nil || g.Details.String() != direct.Details.String() || g.Type != direct.Type {
			return fmt.Sprintf("details/type differ: %v vs %v", g.Details, direct.Details)
		}
		return effectsEquivalent(g.Effects, direct.Effects, uint64(c.Idx)*100+uint64(i))
	})
	c.Count("riscv_images", 1)
}

func compare(c *mon.Case, feat map[string]string, bs []block, want []expIns, fail bool, got []parser.Instruction, err error, extra func(int, parser.Instruction) string) {
	if fail {
		c.Count("images_must_fail", 1)
		c.Nontrivial("fail|" + desc(bs))
		if err == nil {
			c.Fail("C21.accepts-bad-image", feat, "image with an undecodable/truncated position parsed without error (%d instructions): %s", len(got), desc(bs))
		}
		return
	}
	if err != nil {
		c.Fail("C21.rejects-good-image", feat, "fully decodable image rejected: %v\n%s", err, desc(bs))
		return
	}
	if len(got) != len(want) {
		c.Fail("C21.tiling", feat, "%d instructions, expected %d: %s", len(got), len(want), desc(bs))
		return
	}
	for i, g := range got {
		w := want[i]
		if uint64(g.Addr) != w.addr || string(g.Bytes) != string(w.bytes) || uint64(g.Begin()) != w.addr || uint64(g.End()) != w.addr+uint64(len(w.bytes)) || int(g.Len()) != len(w.bytes) {
			c.Fail("C21.tiling", feat, "instruction %d is at %#x with bytes %x, expected %#x with %x: %s", i, g.Addr, g.Bytes, w.addr, w.bytes, desc(bs))
			return
		}
		if extra != nil {
			if msg := extra(i, g); msg != "" {
				c.Fail("C21.effects", feat, "instruction %d at %#x (%x): %s", i, g.Addr, g.Bytes, msg)
				return
			}
		}
	}
	c.Count("instructions", len(got))
	if len(bs) >= 2 {
		c.Nontrivial("ok|" + desc(bs))
	}
	if c.WantSample() && len(bs) <= 2 {
		c.Sample(map[string]any{"image": desc(bs), "instructions": len(got)})
	}
}

func main() {
	mon.Main(mon.Spec{
		Prop:        "C21",
		Rule:        "case = code image of 1..5 blocks (adjacent, gapped, unsorted, near 2^32) filled with valid RISC-V words of a random configuration, sometimes with an undecodable word at the first/middle/last position or a truncated tail; one third of the cases use a well-behaved stub parser with instruction lengths 1..6; non-trivial = image that must fail, or image with >=2 blocks, distinct by content",
		Explanation: "oracle: my own walk over the blocks with refrv.Decode (or the stub's length rule) decides success and the expected (address, bytes) tiling; on success each instruction must carry its bytes and its effects must be equivalent (kind, key, width, operand values on valuations by refir) to the front end's direct lifting of those bytes, with the same text and type",
		Assumptions: []string{"refrv decode table", "refir evaluator", "image built through the verif hook elf.VerifNewMemory"},
		Cases: func(t string) int {
			if t == "thorough" {
				return 3000000
			}
			return 40000
		},
		Floor: func(t string) int {
			if t == "thorough" {
				return 100000
			}
			return 5000
		},
		RequiredCounts: []string{"stub_images", "riscv_images", "images_must_fail", "instructions"},
		Run:            run,
	})
}
