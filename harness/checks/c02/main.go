// C02 – the decoder accepts exactly the supported RISC-V instruction set.
// Oracle: refrv.Decode (mask/match table written from the specification).
package main

import (
	"fmt"
	"math/rand"
	"strings"

	"mltwist/internal/riscv"
	"mltwist/pkg/model"
	"mltwist/verifh/mon"
	"mltwist/verifh/refir"
	"mltwist/verifh/refrv"
	"mltwist/verifh/rvgen"
)

var cfgs = refrv.AllCfgs()
var parsers = map[refrv.Cfg][2]riscv.Parser{}
var parserCalls int

// parser returns the product parser of a configuration; for configurations with both
// extensions the calls alternate between a parser built with (M, A) and one built with
// (A, M): a configuration is a set of extensions.
func parser(c refrv.Cfg) riscv.Parser {
	p, ok := parsers[c]
	if !ok {
		p = [2]riscv.Parser{rvgen.ParserOrder(c, false), rvgen.ParserOrder(c, true)}
		parsers[c] = p
	}
	parserCalls++
	return p[parserCalls%2]
}

// Work layout (case index -> job)
//
//	quick:    [0, 8*128)            triple sweep: cfg x opcode(7 bits): all funct3 x funct7 x 6 fillings   (Match)
//	          next 8*N              neighbourhoods of every definition through full Parse
//	          next 8*40             short inputs, trailing bytes, random words through full Parse
//	thorough: additionally exhaustive 2^32 sweeps for rv32ima and rv64ima (2*65536 cases of 65536 words),
//	          the subset-sensitive major opcodes for the other six configurations and sampled full Parses.
const (
	nTriple = 8 * 128
	nNeigh  = 8 * 64
	nMisc   = 8 * 60
	chunk   = 1 << 16
)

var subsetOpcodes = []uint32{0x33, 0x3b, 0x2f}

func nExh(tier string) int {
	if tier != "thorough" {
		return 0
	}
	return 2*(1<<32/chunk) + 6*len(subsetOpcodes)*(1<<25/chunk)
}

func cases(tier string) int {
	n := nTriple + nNeigh + nMisc + nExh(tier)
	if tier == "thorough" {
		n += 8 * 2000 // sampled full parses
	}
	return n
}

func feat(c refrv.Cfg) map[string]string { return map[string]string{"cfg": c.String()} }

// checkMatch compares the product's opcode matching with the reference.
func checkMatch(c *mon.Case, cfg refrv.Cfg, w uint32, p riscv.Parser) bool {
	var bs [4]byte
	bs[0], bs[1], bs[2], bs[3] = byte(w), byte(w>>8), byte(w>>16), byte(w>>24)
	name, ok := p.VerifMatch(bs[:])
	d, rok := refrv.Decode(cfg, w)
	if ok != rok {
		kind := "accepts-undefined"
		if rok {
			kind = "rejects-defined"
		}
		f := feat(cfg)
		f["kind"] = kind
		f["opcode"] = fmt.Sprintf("%#02x", w&0x7f)
		c.Fail("C02.accept", f, "%s word %#08x: front end accepted=%v (%q), specification defines it=%v (%q)", cfg, w, ok, name, rok, d.Name)
		return false
	}
	if ok && !strings.EqualFold(name, d.Name) {
		f := feat(cfg)
		f["want"] = d.Name
		c.Fail("C02.name", f, "%s word %#08x: named %q, specification says %q", cfg, w, name, d.Name)
		return false
	}
	return ok
}

// checkParse runs the full Parse and ties it to the reference.
func checkParse(c *mon.Case, cfg refrv.Cfg, w uint32, tail []byte) {
	p := parser(cfg)
	bs := append(rvgen.LE(w), tail...)
	addr := model.Addr(0x1000)
	var ins model.Instruction
	var err error
	pn, val, stack := mon.Try(func() { ins, err = p.Parse(addr, bs) })
	c.Eval(1)
	if pn {
		f := feat(cfg)
		f["site"] = mon.PanicSite(stack)
		c.Fail("C02.parse.panic", f, "%s Parse(%#x, %x) panicked: %v\n%s", cfg, addr, bs, val, stack)
		return
	}
	d, rok := refrv.Decode(cfg, w)
	if (err == nil) != rok {
		f := feat(cfg)
		f["kind"] = "rejects-defined"
		if err == nil {
			f["kind"] = "accepts-undefined"
		}
		f["opcode"] = fmt.Sprintf("%#02x", w&0x7f)
		c.Fail("C02.accept", f, "%s Parse(%x): error=%v, specification defines it=%v (%q)", cfg, bs, err, rok, d.Name)
		return
	}
	if err != nil {
		return
	}
	if ins.Details == nil || !strings.EqualFold(ins.Details.Name(), d.Name) {
		f := feat(cfg)
		f["want"] = d.Name
		c.Fail("C02.name", f, "%s Parse(%x): named %v, specification says %q", cfg, bs, ins.Details, d.Name)
		return
	}
	if ins.ByteLen != 4 {
		c.Fail("C02.bytelen", feat(cfg), "%s Parse(%x): ByteLen=%d", cfg, bs, ins.ByteLen)
		return
	}
	if verr := ins.Validate(); verr != nil {
		c.Fail("C02.invalid-instruction", feat(cfg), "%s Parse(%x): instruction does not validate: %v", cfg, bs, verr)
		return
	}
	if len(tail) > 0 {
		// trailing bytes never influence decoding
		ins2, err2 := p.Parse(addr, rvgen.LE(w))
		if err2 != nil || ins2.Details.Name() != ins.Details.Name() || ins2.Details.String() != ins.Details.String() ||
			ins2.ByteLen != ins.ByteLen || ins2.Type != ins.Type ||
			refir.EffectsString(ins2.Effects) != refir.EffectsString(ins.Effects) {
			c.Fail("C02.trailing-bytes", feat(cfg), "%s Parse(%x) differs from Parse(%x): %q vs %q", cfg, bs, rvgen.LE(w), ins.Details.String(), ins2.Details)
		}
		c.Count("trailing_checked", 1)
	}
	c.Count("full_parse_accepted", 1)
}

func run(c *mon.Case) {
	idx := c.Idx
	r := c.Rng
	switch {
	case idx < nTriple:
		cfg := cfgs[idx/128]
		op := uint32(idx % 128)
		p := parser(cfg)
		acc := int64(0)
		fills := []uint32{0, 0x01ff8f80, r.Uint32(), r.Uint32(), r.Uint32(), r.Uint32()}
		for f3 := uint32(0); f3 < 8; f3++ {
			for f7 := uint32(0); f7 < 128; f7++ {
				for _, fl := range fills {
					w := op | f3<<12 | f7<<25 | fl&0x01ff8f80
					if checkMatch(c, cfg, w, p) {
						acc++
						c.NontrivialHash(uint64(w)<<8 | uint64(idx/128))
					}
				}
			}
		}
		c.Eval(8 * 128 * 6)
		c.Count("triple_words", 8*128*6)
		c.Count("triple_accepted", int(acc))
	case idx < nTriple+nNeigh:
		k := idx - nTriple
		cfg := cfgs[k/64]
		defs := refrv.DefsFor(cfg)
		p := parser(cfg)
		for di := k % 64; di < len(defs); di += 64 {
			d := defs[di]
			for _, base := range []uint32{d.Match, d.Match | ^d.Mask, d.Word(r.Uint32()), rvgen.Word(r, d)} {
				checkParse(c, cfg, base, nil)
				for b1 := uint(0); b1 < 32; b1++ {
					w1 := base ^ 1<<b1
					checkMatch(c, cfg, w1, p)
					checkParse(c, cfg, w1, nil)
					c.NontrivialHash(uint64(w1)<<8 | uint64(k/64))
					for b2 := b1 + 1; b2 < 32; b2++ {
						w2 := w1 ^ 1<<b2
						checkMatch(c, cfg, w2, p)
						c.NontrivialHash(uint64(w2)<<8 | uint64(k/64))
					}
				}
				c.Eval(32 + 496)
			}
			c.Count("neighbourhood_defs", 1)
		}
	case idx < nTriple+nNeigh+nMisc:
		k := idx - nTriple - nNeigh
		cfg := cfgs[k/60]
		p := parser(cfg)
		defs := refrv.DefsFor(cfg)
		// short inputs
		for n := 0; n < 4; n++ {
			d := defs[r.Intn(len(defs))]
			bs := rvgen.LE(rvgen.Word(r, d))[:n]
			var err error
			pn, val, stack := mon.Try(func() { _, err = p.Parse(0x1000, bs) })
			c.Eval(1)
			if pn {
				c.Fail("C02.parse.panic", feat(cfg), "%s Parse(%x) panicked: %v\n%s", cfg, bs, val, stack)
			} else if err == nil {
				c.Fail("C02.short-accepted", feat(cfg), "%s Parse of %d bytes (%x) accepted", cfg, n, bs)
			}
			if name, ok := p.VerifMatch(bs); ok {
				c.Fail("C02.short-accepted", feat(cfg), "%s Match of %d bytes accepted as %s", cfg, n, name)
			}
			c.Count("short_inputs", 1)
		}
		// random words and valid words with random tails
		for i := 0; i < 60; i++ {
			var w uint32
			if i%2 == 0 {
				w = rvgen.Word(r, defs[r.Intn(len(defs))])
			} else {
				w = r.Uint32()
			}
			tail := make([]byte, r.Intn(9))
			r.Read(tail)
			checkParse(c, cfg, w, tail)
			checkMatch(c, cfg, w, p)
		}
	case idx < nTriple+nNeigh+nMisc+nExh(c.Tier):
		k := idx - nTriple - nNeigh - nMisc
		full := 1 << 32 / chunk
		var cfg refrv.Cfg
		var start uint32
		var gen func(i uint32) uint32
		switch {
		case k < 2*full:
			cfg = refrv.Cfg{XLEN: 32 + 32*(k/full), M: true, A: true}
			start = uint32(k%full) * chunk
			gen = func(i uint32) uint32 { return start + i }
		default:
			k -= 2 * full
			per := len(subsetOpcodes) * (1 << 25 / chunk)
			sub := []refrv.Cfg{{32, false, false}, {32, true, false}, {32, false, true}, {64, false, false}, {64, true, false}, {64, false, true}}
			cfg = sub[k/per]
			k %= per
			op := subsetOpcodes[k/(1<<25/chunk)]
			hi := uint32(k%(1<<25/chunk)) * chunk
			gen = func(i uint32) uint32 { return (hi+i)<<7 | op }
		}
		p := parser(cfg)
		acc := int64(0)
		for i := uint32(0); i < chunk; i++ {
			if checkMatch(c, cfg, gen(i), p) {
				acc++
			}
		}
		c.Eval(chunk)
		c.Count("exhaustive_words_"+cfg.String(), chunk)
		c.Count("exhaustive_accepted_"+cfg.String(), int(acc))
		c.NontrivialBulk(acc)
	default:
		cfg := cfgs[idx%8]
		defs := refrv.DefsFor(cfg)
		for i := 0; i < 200; i++ {
			var w uint32
			if i%2 == 0 {
				w = rvgen.Word(r, defs[r.Intn(len(defs))])
			} else {
				w = r.Uint32()
			}
			checkParse(c, cfg, w, nil)
		}
	}
	if c.WantSample() && idx >= nTriple+nNeigh {
		w := rand.New(rand.NewSource(int64(idx))).Uint32()
		d, ok := refrv.Decode(cfgs[idx%8], w)
		c.Sample(map[string]any{"cfg": cfgs[idx%8].String(), "word": fmt.Sprintf("%#08x", w), "spec_defines": ok, "spec_name": d.Name})
	}
}

func main() {
	mon.Main(mon.Spec{
		Prop:        "C02",
		Rule:        "case = (configuration, 32-bit word [, trailing bytes]); quick: for each of the 8 configurations every (opcode, funct3, funct7) triple with 6 fillings of the remaining bits, the 1- and 2-bit neighbourhoods of 4 base encodings of every definition, short inputs and random tails; thorough adds all 2^32 words for rv32ima and rv64ima and all words of the three extension-sensitive major opcodes (OP, OP-32, AMO) for the six smaller configurations; non-trivial = accepted word or word within Hamming distance 2 of an accepted encoding, distinct by (word, configuration)",
		Explanation: "oracle: an independent mask/match table written from the unprivileged specification (reserved fields of fence/fence.i/ecall/ebreak/lr zero, shamt[5]=0 on RV32, W-forms only on RV64); acceptance must coincide and the name must match case-insensitively; full Parse is tied to the matcher (name, ByteLen=4, Validate), inputs shorter than 4 bytes must be rejected and trailing bytes must not change name, text, type or effects. exhaustive=true refers to the (opcode,funct3,funct7) sweep and, in the thorough tier, the 2^32 sweeps named above.",
		Assumptions: []string{"refrv decode table", "HINT encodings (rd=x0) are instructions; fence with fm/rs1/rd != 0 (incl. fence.tso) is not, per the statement"},
		Cases:       cases,
		Floor: func(t string) int {
			if t == "thorough" {
				return 100000000
			}
			return 1000000
		},
		Exhaustive:     func(string) bool { return true },
		RequiredCounts: []string{"triple_accepted", "neighbourhood_defs", "short_inputs", "trailing_checked", "full_parse_accepted"},
		Run:            run,
	})
}
