// C23 – the disassembly listing always reflects the current code.
package main

import (
	"fmt"
	"strings"

	"mltwist/internal/consoleui/disassemble"
	"mltwist/verifh/mon"
	"mltwist/verifh/uichk"
)

func texts(ls []disassemble.VerifLine) []string {
	out := make([]string, len(ls))
	for i, l := range ls {
		out[i] = l.Text
	}
	return out
}

func equalTol(a, b []string) bool {
	// a trailing blank line is tolerated
	for len(a) > 0 && a[len(a)-1] == "" {
		a = a[:len(a)-1]
	}
	for len(b) > 0 && b[len(b)-1] == "" {
		b = b[:len(b)-1]
	}
	if len(a) != len(b) {
		return false
	}
	for i := range a {
		if a[i] != b[i] {
			return false
		}
	}
	return true
}

func firstDiff(a, b []string) string {
	n := len(a)
	if len(b) < n {
		n = len(b)
	}
	for i := 0; i < n; i++ {
		if a[i] != b[i] {
			return fmt.Sprintf("line %d: listing %q, expected %q", i, a[i], b[i])
		}
	}
	return fmt.Sprintf("listing has %d lines, expected %d", len(a), len(b))
}

func run(c *mon.Case) {
	uichk.Init()
	r := c.Rng
	s, err := uichk.NewSessionAt(r, 6, uichk.PickBase(r))
	if err != nil {
		c.Count("session_build_failed", 1)
		return
	}
	code := s.Code
	sizes := map[int]bool{}
	for _, b := range code.Blocks() {
		sizes[b.Num()] = true
	}
	var hist []string
	desc := func() string {
		return fmt.Sprintf("moves: %s\nprogram:\n%s", strings.Join(hist, "; "), s.Prog.Listing())
	}
	cur := func() ([]disassemble.VerifLine, bool) {
		ls, _, ok := disassemble.VerifListing(s.UI.VerifMode())
		return ls, ok
	}
	check := func(when string) bool {
		ls, ok := cur()
		if !ok {
			c.Fail("C23.harness", nil, "not in disassembler mode")
			return false
		}
		got := texts(ls)
		want, _ := uichk.RenderListing(code)
		if !equalTol(got, want) {
			c.Fail("C23.structure", map[string]string{"when": when}, "%s the listing differs from an independent rendering of the current code: %s\n%s", when, firstDiff(got, want), desc())
			return false
		}
		fresh := texts(disassemble.VerifFreshListing(code))
		if !equalTol(got, fresh) {
			c.Fail("C23.fresh", map[string]string{"when": when}, "%s the listing differs from a fresh listing of the same code: %s\n%s", when, firstDiff(got, fresh), desc())
			return false
		}
		// line metadata must address the right block/instruction
		for i, l := range ls {
			if l.Instr >= 0 {
				if l.Block < 0 || l.Block >= code.Len() || l.Instr >= code.Index(l.Block).Num() {
					c.Fail("C23.line-metadata", nil, "%s line %d refers to block %d instruction %d which do not exist\n%s", when, i, l.Block, l.Instr, desc())
					return false
				}
				if want := code.Index(l.Block).Index(l.Instr).String(); !strings.Contains(l.Text, want) {
					c.Fail("C23.line-metadata", nil, "%s line %d (%q) refers to block %d instruction %d which is %q\n%s", when, i, l.Text, l.Block, l.Instr, want, desc())
					return false
				}
			}
		}
		return true
	}
	if !check("initially") {
		return
	}
	accIns, accBlk, rej := 0, 0, 0
	diffSizeBlockMove := false
	for n := 0; n < 60; n++ {
		ls, _ := cur()
		var hdrs, inss, blanks []int
		for i, l := range ls {
			switch {
			case l.Instr >= 0:
				inss = append(inss, i)
			case l.Block >= 0:
				hdrs = append(hdrs, i)
			default:
				blanks = append(blanks, i)
			}
		}
		pick := func(xs []int) int {
			if len(xs) == 0 {
				return 0
			}
			return xs[r.Intn(len(xs))]
		}
		var a, b int
		kind := ""
		switch x := r.Intn(100); {
		case x < 45: // instruction move within one block (nearby lines)
			a = pick(inss)
			b = a + r.Intn(7) - 3
			kind = "ins"
		case x < 70: // block move
			a, b = pick(hdrs), pick(hdrs)
			kind = "block"
		case x < 80: // mixed kinds
			a, b = pick(hdrs), pick(inss)
			if r.Intn(2) == 0 {
				a, b = b, a
			}
			kind = "mixed"
		case x < 88:
			a, b = pick(blanks), pick(inss)
			kind = "blank"
		case x < 94:
			a, b = pick(inss), len(ls)+r.Intn(3)
			kind = "out-of-range"
		default:
			a, b = r.Intn(len(ls)), r.Intn(len(ls))
			kind = "random"
		}
		if b < 0 {
			b = 0
		}
		before := texts(ls)
		var fromBlk, toBlk = -1, -1
		if a < len(ls) && b < len(ls) && ls[a].Instr < 0 && ls[a].Block >= 0 && ls[b].Instr < 0 && ls[b].Block >= 0 {
			fromBlk, toBlk = ls[a].Block, ls[b].Block
		}
		line := fmt.Sprintf("move %d %d", a, b)
		hist = append(hist, line)
		res := s.Exec(line)
		c.Eval(1)
		if res.Panicked {
			c.Fail("C23.panic", map[string]string{"site": mon.PanicSite(res.Stack), "kind": kind}, "%q panicked: %v\n%s\n%s", line, res.PanicVal, desc(), res.Stack)
			return
		}
		rejected := strings.Contains(res.Out, "error:")
		if rejected {
			rej++
			after, _ := cur()
			if !equalTol(texts(after), before) {
				c.Fail("C23.rejected-changed", map[string]string{"kind": kind}, "the rejected %q changed the listing: %s\n%s", line, firstDiff(texts(after), before), desc())
				return
			}
		} else {
			if kind == "block" && fromBlk >= 0 {
				accBlk++
				if fromBlk != toBlk {
					lo, hi := fromBlk, toBlk
					if lo > hi {
						lo, hi = hi, lo
					}
					ns := map[int]bool{}
					for i := lo; i <= hi; i++ {
						ns[code.Index(i).Num()] = true
					}
					if len(ns) > 1 {
						diffSizeBlockMove = true
					}
				}
			} else {
				accIns++
			}
		}
		if !check(fmt.Sprintf("after %q,", line)) {
			return
		}
	}
	c.Count("histories", 1)
	c.Count("accepted_instruction_moves", accIns)
	c.Count("accepted_block_moves", accBlk)
	c.Count("rejected_moves", rej)
	if diffSizeBlockMove {
		c.Count("histories_with_block_move_of_different_sizes", 1)
	}
	if diffSizeBlockMove && accIns >= 5 {
		c.Nontrivial(desc())
	}
	if c.WantSample() && len(s.Prog.Words) < 14 {
		c.Sample(map[string]any{"program": strings.Split(strings.TrimSpace(s.Prog.Listing()), "\n"), "moves": hist[:8]})
	}
}

func main() {
	mon.Main(mon.Spec{
		Prop:        "C23",
		Rule:        "case = UI session over a generated program with several basic blocks of different sizes and a history of 60 'move a b' commands executed through the real command loop (instruction moves between nearby lines, block moves between headers, mixed kinds, blank lines, out-of-range and random line numbers); non-trivial = history with >=1 accepted block move across blocks of different size and >=5 accepted instruction moves; distinct by program+moves",
		Explanation: "oracle after every command: the listing text (marks ignored) must equal an independent rendering built from the deps public API only (header 'Block <position>: 0x<begin>', instruction text and bytes, single blank separators, trailing blank tolerated) and a fresh lines.NewView of the same code; a command answered with 'error:' must leave the text unchanged; every instruction line's (block, instruction) metadata must address the instruction whose text it shows",
		Assumptions: []string{"listing read through the hook disassemble.VerifListing", "line format transcribed from the statement and the documented layout"},
		Cases: func(t string) int {
			if t == "thorough" {
				return 100000
			}
			return 8000
		},
		Floor: func(t string) int {
			if t == "thorough" {
				return 20000
			}
			return 600
		},
		RequiredCounts: []string{"histories", "accepted_instruction_moves", "accepted_block_moves", "rejected_moves", "histories_with_block_move_of_different_sizes"},
		Run:            run,
	})
}
