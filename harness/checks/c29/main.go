// C29 – help text wrapping keeps every character within the width.
package main

import (
	"fmt"
	"math"
	"math/rand"
	"strings"
	"time"

	"mltwist/internal/consoleui"
	"mltwist/verifh/mon"
)

func genText(r *rand.Rand) string {
	n := r.Intn(301)
	if r.Intn(4) == 0 {
		n = r.Intn(30)
	}
	var sb strings.Builder
	for sb.Len() < n {
		wl := 1 + r.Intn(12)
		switch r.Intn(8) {
		case 0:
			wl = 20 + r.Intn(100) // long word
		case 1:
			wl = 1
		}
		for i := 0; i < wl; i++ {
			ch := byte(33 + r.Intn(94)) // printable, non-space
			sb.WriteByte(ch)
		}
		sp := 1
		if r.Intn(5) == 0 {
			sp = 1 + r.Intn(6) // runs of spaces
		}
		sb.WriteString(strings.Repeat(" ", sp))
	}
	s := sb.String()
	if len(s) > n {
		s = s[:n]
	}
	return strings.TrimLeft(s, " ")
}

func nonSpace(s string) string {
	return strings.Map(func(r rune) rune {
		if r == ' ' || r == '\n' || r == '\t' {
			return -1
		}
		return r
	}, s)
}

// callFormat runs format with a watchdog (termination clause).
func callFormat(s string, indent, width int) (out string, panicked bool, val any, stack string, hung bool) {
	type res struct {
		out   string
		p     bool
		v     any
		stack string
	}
	ch := make(chan res, 1)
	go func() {
		var o string
		p, v, st := mon.Try(func() { o = consoleui.VerifFormat(s, indent, width) })
		ch <- res{o, p, v, st}
	}()
	select {
	case r := <-ch:
		return r.out, r.p, r.v, r.stack, false
	case <-time.After(20 * time.Second):
		return "", false, nil, "", true
	}
}

func check(c *mon.Case, s string, indent, width int, judgeContent bool) {
	chars := width - 8*indent
	out, pn, val, stack, hung := callFormat(s, indent, width)
	c.Eval(1)
	desc := fmt.Sprintf("format(%q, indent=%d, width=%d) [room for %d characters]", s, indent, width, chars)
	if hung {
		c.Fail("C29.no-termination", nil, "%s did not return within 20 s", desc)
		return
	}
	if pn {
		c.Fail("C29.panic", map[string]string{"site": mon.PanicSite(stack)}, "%s panicked: %v\n%s", desc, val, stack)
		return
	}
	if !judgeContent {
		return
	}
	if out == "" {
		if nonSpace(s) != "" {
			c.Fail("C29.lost-characters", nil, "%s returned nothing", desc)
		}
		return
	}
	if !strings.HasSuffix(out, "\n") {
		c.Fail("C29.line-structure", nil, "%s: output does not end with a newline: %q", desc, out)
		return
	}
	lines := strings.Split(strings.TrimSuffix(out, "\n"), "\n")
	prefix := strings.Repeat("\t", indent)
	var body []string
	for i, l := range lines {
		if !strings.HasPrefix(l, prefix) {
			c.Fail("C29.indent", nil, "%s: line %d %q does not start with %d tabs", desc, i, l, indent)
			return
		}
		b := l[len(prefix):]
		if strings.ContainsAny(b, "\t") {
			c.Fail("C29.indent", nil, "%s: line %d %q has extra tabs", desc, i, l)
			return
		}
		if len(b) > chars {
			c.Fail("C29.too-long", nil, "%s: line %d has %d characters: %q", desc, i, len(b), b)
			return
		}
		body = append(body, b)
	}
	if got, want := nonSpace(strings.Join(body, "")), nonSpace(s); got != want {
		c.Fail("C29.lost-characters", nil, "%s: non-space characters of the output %q differ from the input's %q", desc, got, want)
		return
	}
	// word splitting: a break inside a word is allowed only if the word is longer than the room
	pos := 0 // position in s of the start of the next line's content
	for i, b := range body {
		// locate this line in s: it is s[pos:pos+len(b)] with spaces possibly skipped before
		for pos < len(s) && s[pos] == ' ' && !strings.HasPrefix(s[pos:], b) {
			pos++
		}
		if !strings.HasPrefix(s[pos:], b) {
			// lines need not be literal substrings if spaces were altered; the character check above suffices
			break
		}
		end := pos + len(b)
		if i < len(body)-1 && end < len(s) && end > 0 && s[end] != ' ' && s[end-1] != ' ' {
			// the break is inside a word: find the whole word
			ws := end
			for ws > 0 && s[ws-1] != ' ' {
				ws--
			}
			we := end
			for we < len(s) && s[we] != ' ' {
				we++
			}
			if we-ws <= chars {
				c.Fail("C29.word-split", nil, "%s: the word %q (%d characters) fits into a line but was split after %q", desc, s[ws:we], we-ws, b)
				return
			}
		}
		pos = end
	}
	if len(lines) >= 2 {
		c.Nontrivial(fmt.Sprintf("%d|%d|%s", indent, width, s))
	}
	if c.WantSample() && len(s) < 60 && len(lines) >= 2 {
		c.Sample(map[string]any{"text": s, "indent": indent, "width": width, "lines": lines})
	}
}

func run(c *mon.Case) {
	r := c.Rng
	for sub := 0; sub < 50; sub++ {
		s := genText(r)
		indent := r.Intn(10)
		room := 1 + r.Intn(80)
		switch r.Intn(6) {
		case 0:
			room = 1
		case 1:
			room = 2 + r.Intn(4)
		}
		width := 8*indent + room
		if r.Intn(20) == 0 { // the production call: indent 1, width 80
			indent, width = 1, 80
		}
		if r.Intn(25) == 0 {
			// very wide screens ("never wrap"): the extremes of the integer range
			width = []int{math.MaxInt, math.MaxInt - 1, math.MaxInt - 7, math.MaxInt32, math.MaxInt32 + 1, 1 << 40, math.MaxInt/2 + 1, 100000}[r.Intn(8)]
			if r.Intn(2) == 0 {
				indent = 0
			}
			c.Count("huge_widths", 1)
		}
		check(c, s, indent, width, true)
		c.Count("ascii_texts", 1)
		if sub%10 == 0 {
			// UTF-8 input: crash/termination only
			u := []rune(s)
			for i := range u {
				if r.Intn(4) == 0 {
					u[i] = []rune{'é', 'ž', '→', '語', '😀', ' '}[r.Intn(6)]
				}
			}
			check(c, strings.TrimLeft(string(u), " "), indent, width, false)
			c.Count("utf8_texts", 1)
		}
	}
}

func main() {
	mon.Main(mon.Spec{
		Prop:        "C29",
		Rule:        "case = (text, indent, width): printable-ASCII single-line texts of 0..300 characters without leading spaces (word lengths 1..12, long words 20..120, runs of 1..6 spaces), indent 0..9, widths leaving 1..80 characters (1 and 2..5 over-represented; the production call indent=1,width=80 included; one case in 25 with a huge width up to the maximal integer); UTF-8 variants for crash/termination only; non-trivial = text needing >=2 output lines, distinct by (indent,width,text)",
		Explanation: "oracle: every output line starts with exactly indent tabs and its remainder fits width-8*indent; the non-space characters of all lines concatenated equal those of the input; a line break inside a word is allowed only if the whole word is longer than the room; the call must return (20 s watchdog on a microsecond computation, reported as a violation of the termination clause) and not panic",
		Assumptions: []string{"format reached through the verif hook consoleui.VerifFormat"},
		Cases: func(t string) int {
			if t == "thorough" {
				return 1000000
			}
			return 20000
		},
		Floor: func(t string) int {
			if t == "thorough" {
				return 2000000
			}
			return 80000
		},
		RequiredCounts: []string{"ascii_texts", "utf8_texts"},
		Run:            run,
	})
}
