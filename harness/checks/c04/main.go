// C04 – the emulator asks for unknown state only, once.
package main

import (
	"mltwist/verifh/emuchk"
	"mltwist/verifh/mon"
)

func main() {
	mon.Main(mon.Spec{
		Prop:        "C04",
		Rule:        "case = the C03 program runs (generated RV64IMA programs on the emulator assembled like cmd/mltwist) observed through an instrumented state provider; loads cover [known|unknown|known] byte runs because image bytes, pre-written bytes, stored bytes and supplied bytes interleave in a 64-byte window; non-trivial = run with >=1 provider request and a load partially overlapping an earlier store, distinct by listing",
		Explanation: "oracle: shadow knowledge sets (registers and bytes that are in the image, pre-populated, written by the reference machine, or already supplied); every provider request for a known register or a range containing a known byte is a violation; a register/byte supplied by the provider and not overwritten must keep reading as the supplied value (compared with the reference machine whose initial state is the provider function)",
		Assumptions: []string{"refrv reference interpreter decides what each instruction writes", "provider = deterministic hash of (key,address)"},
		Cases: func(t string) int {
			if t == "thorough" {
				return 400000
			}
			return 30000
		},
		Floor: func(t string) int {
			if t == "thorough" {
				return 20000
			}
			return 1000
		},
		RequiredCounts: []string{"provider_register_requests", "provider_memory_requests", "provider_partial_memory_requests", "prepopulated_runs"},
		Run:            func(c *mon.Case) { emuchk.RunCase(c, "C04") },
	})
}
