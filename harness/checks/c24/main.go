// C24 – screen rendering fits the granted space.
package main

import (
	"fmt"
	"math/rand"

	"mltwist/internal/consoleui/emulate"
	"mltwist/internal/consoleui/verifhooks"
	"mltwist/internal/state"
	"mltwist/internal/state/memory"
	"mltwist/pkg/expr"
	"mltwist/pkg/model"
	"mltwist/verifh/emuchk"
	"mltwist/verifh/gen"
	"mltwist/verifh/mon"
	"mltwist/verifh/uichk"
)

type viewIface interface {
	MinLines() int
	MaxLines() int
	Print(n int) error
}

// printCheck renders v with n granted rows and judges the output.
func printCheck(c *mon.Case, what string, feat map[string]string, v viewIface, n int, desc func() string) bool {
	uichk.Out.Take()
	var err error
	pn, val, stack := mon.Try(func() { err = v.Print(n) })
	out := uichk.Out.Take()
	c.Eval(1)
	if pn {
		f := map[string]string{"site": mon.PanicSite(stack)}
		for k, x := range feat {
			f[k] = x
		}
		c.Fail("C24."+what+".panic", f, "Print(%d) panicked: %v\n%s\n%s", n, val, desc(), stack)
		return false
	}
	rows := uichk.Rows(out)
	if rows > n {
		c.Fail("C24."+what+".too-many-rows", feat, "Print(%d) wrote %d rows (error=%v)\n%s\noutput:\n%s", n, rows, err, desc(), clip(out))
		return false
	}
	if mn, mx := v.MinLines(), v.MaxLines(); mn == mx && mn >= 0 && err == nil && rows != mn {
		c.Fail("C24."+what+".fixed-height", feat, "the view declares a fixed height of %d rows but Print(%d) wrote %d\n%s\noutput:\n%s", mn, n, rows, desc(), clip(out))
		return false
	}
	return true
}

func clip(s string) string {
	if len(s) > 1500 {
		return s[:1500] + "..."
	}
	return s
}

func heights(v viewIface, r *rand.Rand, all bool) []int {
	mn, mx := v.MinLines(), v.MaxLines()
	if mx < 0 || mx > 200 {
		mx = 200
	}
	if mx < mn {
		mx = mn // a granted height is never below the declared minimum
	}
	var hs []int
	if all {
		for h := mn; h <= mx; h++ {
			hs = append(hs, h)
		}
		return hs
	}
	hs = append(hs, mn, mx)
	for i := 0; i < 4; i++ {
		hs = append(hs, mn+r.Intn(mx-mn+1))
	}
	return hs
}

func run(c *mon.Case) {
	uichk.Init()
	r := c.Rng
	switch c.Idx % 4 {
	case 0:
		listing(c, r)
	case 1:
		memoryView(c, r)
	case 2:
		registers(c, r)
	default:
		screens(c, r)
	}
}

func listing(c *mon.Case, r *rand.Rand) {
	n := 1 + r.Intn(30)
	if r.Intn(4) == 0 {
		n = 1 + r.Intn(3) // tiny listings
	}
	var v verifhooks.LinesView
	var prog *emuchk.Program
	for {
		prog = emuchk.Generate(r, n)
		code, _, err := uichk.BuildCode(prog, emuchk.Code)
		if err == nil {
			v = verifhooks.NewLinesView(code)
			break
		}
	}
	desc := func() string {
		return fmt.Sprintf("listing of %d lines (min %d, max %d), cursor %d", v.Len(), v.MinLines(), v.MaxLines(), v.Cursor())
	}
	for cur := 0; cur < v.Len(); cur++ {
		if err := v.SetCursor(cur); err != nil {
			c.Fail("C24.listing.cursor", nil, "cannot place the cursor on line %d of %d: %v", cur, v.Len(), err)
			return
		}
		for _, h := range heights(v, r, !c.Quick() || v.Len() < 12) {
			feat := map[string]string{"cursor_near_end": fmt.Sprint(cur+h > v.Len())}
			if !printCheck(c, "listing", feat, v, h, desc) {
				return
			}
			if cur+h > v.Len() || h < v.Len() {
				c.Nontrivial(fmt.Sprintf("L|%d|%d|%d", v.Len(), cur, h))
			}
		}
	}
	c.Count("listing_views", 1)
	if c.WantSample() {
		c.Sample(desc())
	}
}

func memoryView(c *mon.Case, r *rand.Rand) {
	var mem memory.Memory
	kind := r.Intn(4)
	switch kind {
	case 0:
		mem = nil
	default:
		sp := memory.NewSparse()
		base := []uint64{0, 0x1000, 0x20000 - 8, 1 << 40}[r.Intn(4)]
		for i, k := 0, r.Intn(12); i < k; i++ {
			w := int(gen.SmallWidth(r))
			a := base + uint64(r.Intn(600))
			sp.Store(model.Addr(a), gen.Const(r, expr.Width(w)), expr.Width(w))
		}
		mem = sp
		if kind == 3 {
			mem = memory.NewOverlay(sp, memory.NewSparse())
		}
	}
	mm := verifhooks.NewMemMode(mem)
	rows := mm.Rows()
	desc := func() string {
		cur, ok := mm.Cursor()
		return fmt.Sprintf("memory view with %d rows, cursor %d (present %v)", len(rows), cur, ok)
	}
	if _, ok := mm.Cursor(); !ok {
		for _, h := range heights(mm, r, false) {
			if !printCheck(c, "memview", map[string]string{"empty": "yes"}, mm, h, desc) {
				return
			}
		}
		c.Count("empty_memory_views", 1)
		return
	}
	for cur := 0; cur < len(rows); cur++ {
		if err := mm.SetCursor(cur); err != nil {
			c.Fail("C24.memview.cursor", nil, "cannot place the cursor on row %d of %d: %v", cur, len(rows), err)
			return
		}
		for _, h := range heights(mm, r, false) {
			if !printCheck(c, "memview", map[string]string{"empty": "no"}, mm, h, desc) {
				return
			}
			c.Nontrivial(fmt.Sprintf("M|%d|%d|%d", len(rows), cur, h))
		}
	}
	c.Count("memory_views", 1)
}

func registers(c *mon.Case, r *rand.Rand) {
	st := state.New()
	n := r.Intn(41)
	for i := 0; i < n; i++ {
		w := expr.Width([]int{1, 2, 4, 8, 8, 8, 16}[r.Intn(7)])
		if r.Intn(30) == 0 {
			w = expr.Width(17 + r.Intn(30)) // too wide for the row: error path
		}
		st.Regs.Store(expr.NewKey(fmt.Sprintf("x%d", r.Intn(64))), gen.Const(r, w), w)
	}
	withIP := r.Intn(2) == 0
	if withIP {
		st.Regs.Store(expr.IPKey, expr.ConstFromUint(uint64(0x10000)), 8)
	}
	v := emulate.VerifNewRegView(st)
	desc := func() string {
		return fmt.Sprintf("register view over %d registers (instruction pointer present: %v), declared height %d..%d", st.Regs.Len(), withIP, v.MinLines(), v.MaxLines())
	}
	feat := map[string]string{"ip": fmt.Sprint(withIP)}
	for _, h := range heights(v, r, false) {
		if !printCheck(c, "regview", feat, v, h, desc) {
			return
		}
	}
	c.Count("register_views", 1)
	c.Nontrivial(fmt.Sprintf("R|%d|%v|%d", st.Regs.Len(), withIP, r.Int63()))
}

type screen struct{ s *uichk.Session }

func (x screen) MinLines() int     { a, _ := x.s.UI.VerifScreenLimits(); return a }
func (x screen) MaxLines() int     { _, b := x.s.UI.VerifScreenLimits(); return b }
func (x screen) Print(n int) error { return x.s.UI.VerifPrintScreen(n) }

// screens renders the composites exactly as the modes build them, after driving the
// UI into the disassembler / emulator / memory-view modes.
func screens(c *mon.Case, r *rand.Rand) {
	s, err := uichk.NewSessionAt(r, 3, uichk.PickBase(r))
	if err != nil {
		c.Count("session_build_failed", 1)
		return
	}
	sc := screen{s}
	var hist []string
	fixed := []int{6 + r.Intn(20), 10 + r.Intn(60)}
	desc := func() string {
		return fmt.Sprintf("mode %q after commands %v; screen limits %d..%d", s.UI.VerifModeName(), hist, sc.MinLines(), sc.MaxLines())
	}
	render := func() bool {
		feat := map[string]string{"mode": modeClass(s.UI.VerifModeName())}
		// the session's fixed heights first: the same composite is rendered again and
		// again at the same height while the state below it changes (anything a
		// long-lived composite remembers between renders is then stale)
		hs := append([]int(nil), fixed...)
		hs = append(hs, heights(sc, r, false)...)
		// like view.Print, heights below the minimum only print a message
		hs = append(hs, 1, sc.MinLines()-1)
		hs = append(hs, fixed...)
		for _, h := range hs {
			if h < 0 {
				continue
			}
			uichk.Out.Take()
			var perr error
			pn, val, stack := mon.Try(func() { perr = s.UI.VerifPrintScreen(h) })
			out := uichk.Out.Take()
			c.Eval(1)
			if pn {
				feat["site"] = mon.PanicSite(stack)
				c.Fail("C24.screen.panic", feat, "rendering the screen with %d rows panicked: %v\n%s\n%s", h, val, desc(), stack)
				return false
			}
			if rows := uichk.Rows(out); rows > h && h >= sc.MinLines() {
				c.Fail("C24.screen.too-many-rows", feat, "rendering the screen with %d rows wrote %d rows (err=%v)\n%s\noutput:\n%s", h, rows, perr, desc(), clip(out))
				return false
			}
			c.Nontrivial(fmt.Sprintf("S|%s|%d|%d", s.UI.VerifModeName(), h, r.Int63()))
		}
		return true
	}
	if !render() {
		return
	}
	if r.Intn(2) == 0 { // half of the sessions go straight into the emulator
		// emulation starts at the cursor, which must be on an instruction line
		first := []string{"entrypoint", "goto 1", "goto 2"}[r.Intn(3)]
		hist = append(hist, first, "e")
		if res := s.Exec(first); res.Panicked || res.Err != nil {
			return
		}
		if res := s.Exec("e"); res.Panicked || res.Err != nil {
			return
		}
		if s.UI.VerifModeName() == "emulate" {
			c.Count("screen_sessions_in_emulator", 1)
		}
		if !render() {
			return
		}
	}
	cmds := []string{"d 3", "goto 0", "entrypoint", "goto 1", "e", "s", "s", "memory memory", "d 1", "q", "s", "q", "d 100000", "g 5", "e", "s", "regmod x1"}
	for i := 0; i < 12; i++ {
		cmd := cmds[r.Intn(len(cmds))]
		if r.Intn(3) == 0 {
			_, cur, _ := listingLen(s)
			_ = cur
			cmd = fmt.Sprintf("goto %d", r.Intn(60))
		}
		if s.UI.VerifModeName() == "emulate" && r.Intn(2) == 0 {
			cmd = "s" // keep stepping: every step may add rows to the register table
		}
		if s.UI.VerifDepth() == 1 && cmd == "q" {
			continue
		}
		hist = append(hist, cmd)
		res := s.Exec(cmd)
		if res.Panicked {
			c.Count("command_panics_not_judged_here", 1) // C22's subject
			return
		}
		if res.Err != nil {
			return
		}
		if !render() {
			return
		}
	}
	c.Count("screen_sessions", 1)
}

func modeClass(n string) string {
	if len(n) > 7 && n[:7] == "memview" {
		return "memview"
	}
	return n
}

func listingLen(s *uichk.Session) (int, int, bool) { return 0, 0, false }

func main() {
	mon.Main(mon.Spec{
		Prop:        "C24",
		Rule:        "case = (view state, granted height): listing views of generated programs (incl. tiny ones) at every cursor position, memory views over generated sparse/overlay/absent memories at every cursor, register views over 0..40 constant registers with and without the instruction pointer and with over-wide values, and the composite screens of the disassembler, emulator and memory-view modes reached by driving real commands (each session re-renders two fixed heights after every command, emulator sessions keep stepping); heights from the declared minimum to the maximum (200 when unbounded; all of them for small listings and in the thorough tier, min/max/4 random otherwise); non-trivial = listing state with the cursor in the last n rows or n below the content height, any memory/register/screen state; distinct by state",
		Explanation: "oracle: rows written = newlines in the captured stdout (+1 for a trailing partial row); Print must not panic, must write at most the granted rows, and a view whose declared minimum equals its maximum must write exactly that many rows; composite screens are judged for panic and row count only",
		Assumptions: []string{"views reached through verif hooks; stdout captured through a redirected os.Stdout", "register states hold constants only (documented requirement)"},
		Cases: func(t string) int {
			if t == "thorough" {
				return 160000
			}
			return 8000
		},
		Floor: func(t string) int {
			if t == "thorough" {
				return 200000
			}
			return 10000
		},
		RequiredCounts: []string{"listing_views", "memory_views", "empty_memory_views", "register_views", "screen_sessions", "screen_sessions_in_emulator"},
		Run:            run,
	})
}
