// C07 – move bookkeeping stays consistent across any history.
package main

import (
	"fmt"
	"sort"
	"strings"

	"mltwist/internal/deps"
	"mltwist/pkg/model"
	"mltwist/verifh/depgen"
	"mltwist/verifh/mon"
)

type snap struct {
	blocks [][]uint64        // current block order -> original addresses in current order
	addrs  map[uint64]uint64 // original address -> current address
	bounds map[uint64][2]int // original address -> (lower, upper)
	begins []uint64
}

func takeSnap(code *deps.Code) snap {
	s := snap{addrs: map[uint64]uint64{}, bounds: map[uint64][2]int{}}
	for _, b := range code.Blocks() {
		var as []uint64
		for i, in := range b.Instructions() {
			o := uint64(in.OrigAddr())
			as = append(as, o)
			s.addrs[o] = uint64(in.Begin())
			s.bounds[o] = [2]int{b.LowerBound(i), b.UpperBound(i)}
		}
		s.blocks = append(s.blocks, as)
		s.begins = append(s.begins, uint64(b.Begin()))
	}
	return s
}

func (s snap) String() string {
	var sb strings.Builder
	for i, b := range s.blocks {
		fmt.Fprintf(&sb, "block@%#x[", s.begins[i])
		for _, o := range b {
			fmt.Fprintf(&sb, " %#x@%#x%v", o, s.addrs[o], s.bounds[o])
		}
		sb.WriteString(" ] ")
	}
	return sb.String()
}

func edgesKey(es [][2]model.Addr) string {
	ss := make([]string, len(es))
	for i, e := range es {
		ss[i] = fmt.Sprintf("%x>%x", e[0], e[1])
	}
	sort.Strings(ss)
	return strings.Join(ss, ",")
}

func run(c *mon.Case) {
	r := c.Rng
	cs := depgen.GenCode(r, 1+r.Intn(8), 12, 2+r.Intn(3))
	code, err := cs.Build()
	if err != nil {
		c.Fail("C07.harness", nil, "generated code rejected: %v\n%s", err, depgen.Listing(cs.Ins))
		return
	}
	lens := map[uint64]uint64{}
	for _, in := range cs.Ins {
		lens[in.Addr] = uint64(in.Len)
	}
	var hist []string
	desc := func() string {
		h := hist
		if len(h) > 40 {
			h = h[len(h)-40:]
		}
		return fmt.Sprintf("history: %s\ncode:\n%s", strings.Join(h, "; "), depgen.Listing(cs.Ins))
	}
	// static dependency edges per block begin address
	edges := map[uint64]string{}
	for _, b := range code.Blocks() {
		f, bk := deps.VerifDeps(b), deps.VerifDepsBack(b)
		if edgesKey(f) != edgesKey(bk) {
			c.Fail("C07.deps-asymmetric", nil, "forward and backward dependency sets differ in block %#x: %s vs %s\n%s", b.Begin(), edgesKey(f), edgesKey(bk), desc())
			return
		}
		edges[uint64(b.Begin())] = edgesKey(f)
	}
	accepted, rejected, blockMoves := 0, 0, 0

	invariants := func(when string) bool {
		blocks := code.Blocks()
		if len(blocks) != code.Len() {
			c.Fail("C07.inv.len", nil, "Blocks() has %d entries, Len()=%d\n%s", len(blocks), code.Len(), desc())
			return false
		}
		for bi, b := range blocks {
			if b.Idx() != bi || code.Index(bi).Begin() != b.Begin() {
				c.Fail("C07.inv.block-idx", nil, "%s: block at position %d reports Idx()=%d\n%s", when, bi, b.Idx(), desc())
				return false
			}
			pos := map[model.Addr]int{}
			a := b.Begin()
			ins := b.Instructions()
			if len(ins) != b.Num() {
				c.Fail("C07.inv.num", nil, "%s: Num()=%d but %d instructions\n%s", when, b.Num(), len(ins), desc())
				return false
			}
			for i, in := range ins {
				pos[in.OrigAddr()] = i
				if in.Idx() != i {
					c.Fail("C07.inv.idx", nil, "%s: instruction %#x at position %d reports Idx()=%d\n%s", when, in.OrigAddr(), i, in.Idx(), desc())
					return false
				}
				if in.Begin() != a {
					c.Fail("C07.inv.addr", nil, "%s: instruction %#x at position %d of block %#x has address %#x, contiguous layout requires %#x\n%s", when, in.OrigAddr(), i, b.Begin(), in.Begin(), a, desc())
					return false
				}
				if uint64(in.Len()) != lens[uint64(in.OrigAddr())] || in.End() != in.Begin()+in.Len() {
					c.Fail("C07.inv.len", nil, "%s: instruction %#x changed its length\n%s", when, in.OrigAddr(), desc())
					return false
				}
				a = in.End()
				lo, hi := b.LowerBound(i), b.UpperBound(i)
				if lo > i || hi < i || lo < 0 || hi >= len(ins) {
					c.Fail("C07.inv.bounds", nil, "%s: instruction %#x at position %d lies outside its bounds [%d,%d]\n%s", when, in.OrigAddr(), i, lo, hi, desc())
					return false
				}
				// lookups
				got, ok := b.Address(in.Begin())
				if !ok || got.OrigAddr() != in.OrigAddr() {
					c.Fail("C07.inv.lookup", nil, "%s: Block.Address(%#x) does not find instruction %#x (ok=%v)\n%s", when, in.Begin(), in.OrigAddr(), ok, desc())
					return false
				}
				for off := model.Addr(1); off < in.Len(); off++ {
					if _, ok := b.Address(in.Begin() + off); ok {
						c.Fail("C07.inv.lookup", nil, "%s: Block.Address(%#x) finds something inside instruction %#x\n%s", when, in.Begin()+off, in.OrigAddr(), desc())
						return false
					}
				}
				cb, ok := code.Address(in.Begin())
				if !ok || cb.Begin() != b.Begin() {
					c.Fail("C07.inv.lookup", nil, "%s: Code.Address(%#x) does not find block %#x (ok=%v)\n%s", when, in.Begin(), b.Begin(), ok, desc())
					return false
				}
				if cb2, ok := code.Address(in.End() - 1); !ok || cb2.Begin() != b.Begin() {
					c.Fail("C07.inv.lookup", nil, "%s: Code.Address(%#x) does not find block %#x\n%s", when, in.End()-1, b.Begin(), desc())
					return false
				}
			}
			if a != b.End() || b.Len() != b.End()-b.Begin() {
				c.Fail("C07.inv.addr", nil, "%s: instructions of block %#x end at %#x, block end %#x\n%s", when, b.Begin(), a, b.End(), desc())
				return false
			}
			if _, ok := b.Address(b.End()); ok {
				c.Fail("C07.inv.lookup", nil, "%s: Block.Address(end) found an instruction\n%s", when, desc())
				return false
			}
			// dependencies are static and respected
			f := deps.VerifDeps(b)
			if edgesKey(f) != edges[uint64(b.Begin())] {
				c.Fail("C07.inv.deps-changed", nil, "%s: dependency edges of block %#x changed\n%s", when, b.Begin(), desc())
				return false
			}
			for _, e := range f {
				if pos[e[0]] >= pos[e[1]] {
					c.Fail("C07.inv.deps-order", nil, "%s: instruction %#x (position %d) must precede %#x (position %d) in block %#x\n%s", when, e[0], pos[e[0]], e[1], pos[e[1]], b.Begin(), desc())
					return false
				}
			}
		}
		return true
	}
	if !invariants("initially") {
		return
	}
	gaps := func() []model.Addr { // addresses in no block
		var out []model.Addr
		out = append(out, 0xfff, 0)
		bs := code.Blocks()
		sort.Slice(bs, func(i, j int) bool { return bs[i].Begin() < bs[j].Begin() })
		for i, b := range bs {
			if i+1 < len(bs) && bs[i+1].Begin() != b.End() {
				out = append(out, b.End())
			}
			if i == len(bs)-1 {
				out = append(out, b.End(), b.End()+100)
			}
		}
		return out
	}()
	idx := func(n int) int {
		switch r.Intn(8) {
		case 0:
			return -1 - r.Intn(3)
		case 1:
			return n + r.Intn(3)
		}
		if n == 0 {
			return 0
		}
		return r.Intn(n)
	}
	nops := 200
	for op := 0; op < nops; op++ {
		before := takeSnap(code)
		switch x := r.Intn(100); {
		case x < 70: // instruction move
			bi := r.Intn(code.Len())
			b := code.Index(bi)
			n := b.Num()
			from, to := idx(n), idx(n)
			if r.Intn(3) == 0 && from >= 0 && from < n { // aim at the bounds
				lo, hi := b.LowerBound(from), b.UpperBound(from)
				to = []int{lo, hi, lo - 1, hi + 1}[r.Intn(4)]
			}
			valid := from >= 0 && from < n && to >= 0 && to < n
			want := valid
			if valid {
				lo, hi := b.LowerBound(from), b.UpperBound(from)
				want = to >= lo && to <= hi
			}
			hist = append(hist, fmt.Sprintf("block[%d].Move(%d,%d)", bi, from, to))
			var err error
			pn, val, stack := mon.Try(func() { err = b.Move(from, to) })
			c.Eval(1)
			if pn {
				c.Fail("C07.move.panic", map[string]string{"site": mon.PanicSite(stack)}, "Move panicked: %v\n%s\n%s", val, desc(), stack)
				return
			}
			if (err == nil) != want {
				c.Fail("C07.move.verdict", map[string]string{"want": fmt.Sprint(want)}, "Move(%d,%d) on a block of %d: error=%v, expected accepted=%v (bounds of %d before the call: %v)\n%s", from, to, n, err, want, from, func() any {
					if from >= 0 && from < n {
						return before.bounds[before.blocks[bi][from]]
					}
					return "n/a"
				}(), desc())
				return
			}
			after := takeSnap(code)
			if err != nil {
				rejected++
				if after.String() != before.String() {
					c.Fail("C07.move.rejected-changed", nil, "a rejected move changed the code:\nbefore %s\nafter  %s\n%s", before, after, desc())
					return
				}
			} else {
				accepted++
				// rotation by one
				wantOrder := append([]uint64(nil), before.blocks[bi]...)
				v := wantOrder[from]
				wantOrder = append(wantOrder[:from], wantOrder[from+1:]...)
				wantOrder = append(wantOrder[:to], append([]uint64{v}, wantOrder[to:]...)...)
				if fmt.Sprint(after.blocks[bi]) != fmt.Sprint(wantOrder) {
					c.Fail("C07.move.rotation", nil, "Move(%d,%d): order %x, expected %x\n%s", from, to, after.blocks[bi], wantOrder, desc())
					return
				}
				for bj := range after.blocks {
					if bj != bi && fmt.Sprint(after.blocks[bj]) != fmt.Sprint(before.blocks[bj]) {
						c.Fail("C07.move.other-block", nil, "a move in block %d changed block %d\n%s", bi, bj, desc())
						return
					}
				}
			}
		case x < 85: // block move
			n := code.Len()
			from, to := idx(n), idx(n)
			want := from >= 0 && from < n && to >= 0 && to < n
			hist = append(hist, fmt.Sprintf("code.Move(%d,%d)", from, to))
			var err error
			pn, val, stack := mon.Try(func() { err = code.Move(from, to) })
			c.Eval(1)
			if pn {
				c.Fail("C07.blockmove.panic", map[string]string{"site": mon.PanicSite(stack)}, "Code.Move panicked: %v\n%s\n%s", val, desc(), stack)
				return
			}
			if (err == nil) != want {
				c.Fail("C07.blockmove.verdict", nil, "Code.Move(%d,%d) with %d blocks: error=%v\n%s", from, to, n, err, desc())
				return
			}
			after := takeSnap(code)
			if err != nil {
				if after.String() != before.String() {
					c.Fail("C07.blockmove.rejected-changed", nil, "a rejected block move changed the code\n%s", desc())
					return
				}
			} else {
				blockMoves++
				wantB := append([]uint64(nil), before.begins...)
				v := wantB[from]
				wantB = append(wantB[:from], wantB[from+1:]...)
				wantB = append(wantB[:to], append([]uint64{v}, wantB[to:]...)...)
				if fmt.Sprint(after.begins) != fmt.Sprint(wantB) {
					c.Fail("C07.blockmove.rotation", nil, "Code.Move(%d,%d): block order %x, expected %x\n%s", from, to, after.begins, wantB, desc())
					return
				}
				// nothing but the order changed
				for o, a := range before.addrs {
					if after.addrs[o] != a || after.bounds[o] != before.bounds[o] {
						c.Fail("C07.blockmove.changed-instructions", nil, "a block move changed instruction %#x (address %#x -> %#x)\n%s", o, a, after.addrs[o], desc())
						return
					}
				}
			}
		default: // lookups at addresses outside any block
			a := gaps[r.Intn(len(gaps))]
			if b, ok := code.Address(a); ok {
				c.Fail("C07.lookup.outside", nil, "Code.Address(%#x) found block %#x although no block covers it\n%s", a, b.Begin(), desc())
				return
			}
			c.Eval(1)
		}
		if !invariants(fmt.Sprintf("after op %d", op)) {
			return
		}
	}
	c.Count("moves_accepted", accepted)
	c.Count("moves_rejected", rejected)
	c.Count("block_moves", blockMoves)
	c.Count("histories", 1)
	if accepted >= 20 && rejected >= 20 && blockMoves >= 1 {
		c.Nontrivial(strings.Join(hist, ";") + depgen.Listing(cs.Ins))
	}
	if c.WantSample() && len(cs.Ins) < 10 {
		c.Sample(map[string]any{"code": strings.Split(strings.TrimSpace(depgen.Listing(cs.Ins)), "\n"), "first_ops": hist[:10]})
	}
}

func main() {
	mon.Main(mon.Spec{
		Prop:        "C07",
		Rule:        "case = generated code of 1..8 blocks x 1..12 synthetic instructions (lengths 1..8) and a history of 200 operations (70% instruction moves incl. moves aimed at the reported bounds and +-1, 15% block moves, 15% lookups; ~25% invalid indices incl. negative and =len); non-trivial = history with >=20 accepted and >=20 rejected instruction moves and >=1 block move; distinct by history+code",
		Explanation: "oracle: shadow permutation and an invariant walk after every operation: acceptance iff indices valid and target within [LowerBound,UpperBound] as reported before the call; rejected move leaves a full snapshot unchanged; accepted move is the rotation by one; every instruction within its bounds; addresses tile the block from its start in current order; Block.Address/Code.Address find every instruction/block at its current address and nothing at non-start or uncovered addresses; dependency edges (hook VerifDeps) are static, symmetric and respected by the current order; block moves only permute Blocks()/Idx()",
		Assumptions: []string{"dependency edges read through the verif hook deps.VerifDeps"},
		Cases: func(t string) int {
			if t == "thorough" {
				return 60000
			}
			return 6000
		},
		Floor: func(t string) int {
			if t == "thorough" {
				return 15000
			}
			return 600
		},
		RequiredCounts: []string{"moves_accepted", "moves_rejected", "block_moves"},
		Run:            run,
	})
}
