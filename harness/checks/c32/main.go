// C32 – the memory view shows exactly the stored bytes. Oracle: shadow byte map.
package main

import (
	"fmt"
	"regexp"
	"sort"
	"strconv"
	"strings"

	"mltwist/internal/consoleui"
	"mltwist/internal/consoleui/verifhooks"
	"mltwist/internal/state/memory"
	"mltwist/pkg/expr"
	"mltwist/pkg/model"
	"mltwist/verifh/gen"
	"mltwist/verifh/mon"
	"mltwist/verifh/uichk"
)

type blk struct {
	begin uint64
	bs    []byte
}

func (b blk) Begin() model.Addr { return model.Addr(b.begin) }
func (b blk) Bytes() []byte     { return b.bs }

var rowRe = regexp.MustCompile(`^(.) *([0-9]+)  \| 0x([0-9a-f]{16}) - 0x([0-9a-f]{16}) \| (.*)$`)
var ellRe = regexp.MustCompile(`^(.) *([0-9]+)  \| \.\.\.$`)

type row struct {
	ellipsis bool
	addr     uint64
	cells    []string // 16 cells: "XX" or ".."
	cursor   bool
}

func parseRows(out string) ([]row, string) {
	var rows []row
	for _, l := range strings.Split(strings.TrimSuffix(out, "\n"), "\n") {
		if m := ellRe.FindStringSubmatch(l); m != nil {
			rows = append(rows, row{ellipsis: true, cursor: m[1] == ">"})
			continue
		}
		m := rowRe.FindStringSubmatch(l)
		if m == nil {
			return nil, fmt.Sprintf("unparsable row %q", l)
		}
		a, _ := strconv.ParseUint(m[3], 16, 64)
		e, _ := strconv.ParseUint(m[4], 16, 64)
		if e != a+16 || a%16 != 0 {
			return nil, fmt.Sprintf("row %q does not describe a 16-byte aligned window", l)
		}
		cells := strings.Fields(m[5])
		if len(cells) != 16 {
			return nil, fmt.Sprintf("row %q has %d cells", l, len(cells))
		}
		rows = append(rows, row{addr: a, cells: cells, cursor: m[1] == ">"})
	}
	return rows, ""
}

func run(c *mon.Case) {
	uichk.Init()
	r := c.Rng
	shadow := map[uint64]byte{}
	var hist []string
	store := func(m memory.Memory, a uint64, bs []byte) {
		m.Store(model.Addr(a), expr.NewConst(bs, expr.Width(len(bs))), expr.Width(len(bs)))
		for i, b := range bs {
			shadow[a+uint64(i)] = b
		}
		hist = append(hist, fmt.Sprintf("store(%#x,%x)", a, bs))
	}
	base := []uint64{0, 0x1000, 0x20000 - 24, 1 << 40, 0xfff0, 1<<63 - 8, 0xffffffff80000000, 1<<64 - 0x1000}[r.Intn(8)]
	clusters := 1 + r.Intn(3)
	var mem memory.Memory
	kind := []string{"sparse", "bytes", "overlay"}[r.Intn(3)]
	addrIn := func() uint64 { return base + uint64(r.Intn(clusters))*uint64(64+r.Intn(400)) + uint64(r.Intn(70)) }
	switch kind {
	case "sparse":
		mem = memory.NewSparse()
	case "bytes", "overlay":
		var blocks []memory.ByteBlock
		occupied := map[uint64]bool{}
		for i, n := 0, 1+r.Intn(4); i < n; i++ {
			b := blk{begin: addrIn(), bs: gen.ConstBytes(r, 1+r.Intn(30))}
			clash := false
			for j := range b.bs {
				if occupied[b.begin+uint64(j)] {
					clash = true
				}
			}
			if clash {
				continue
			}
			for j, x := range b.bs {
				occupied[b.begin+uint64(j)] = true
				shadow[b.begin+uint64(j)] = x
			}
			blocks = append(blocks, b)
			hist = append(hist, fmt.Sprintf("block(%#x,%x)", b.begin, b.bs))
		}
		bm, err := memory.NewBytes(blocks)
		if err != nil {
			c.Fail("C32.harness", nil, "NewBytes: %v", err)
			return
		}
		mem = bm
		if kind == "overlay" {
			mem = memory.NewOverlay(bm, memory.NewSparse())
		}
	}
	for i, n := 0, r.Intn(14); i < n; i++ {
		w := int(gen.SmallWidth(r))
		store(mem, addrIn(), gen.ConstBytes(r, w)) // bytes written as parts of wider values, partially overwritten later
	}
	if len(shadow) == 0 {
		store(mem, base+3, []byte{0xab})
	}
	// ---- expected rows
	wins := map[uint64]bool{}
	for a := range shadow {
		wins[a/16*16] = true
	}
	var wl []uint64
	for w := range wins {
		wl = append(wl, w)
	}
	sort.Slice(wl, func(i, j int) bool { return wl[i] < wl[j] })
	var want []row
	for i, w := range wl {
		if i > 0 && wl[i-1]+16 != w {
			want = append(want, row{ellipsis: true})
		}
		rw := row{addr: w}
		for k := uint64(0); k < 16; k++ {
			if b, ok := shadow[w+k]; ok {
				rw.cells = append(rw.cells, fmt.Sprintf("%02X", b))
			} else {
				rw.cells = append(rw.cells, "..")
			}
		}
		want = append(want, rw)
	}
	desc := func() string { return fmt.Sprintf("%s memory: %s", kind, strings.Join(hist, "; ")) }
	feat := map[string]string{"memory": kind}

	mm := verifhooks.NewMemMode(mem)
	// render everything: cursor on the first row, generous height
	nrows := len(mm.Rows())
	uichk.Out.Take()
	var perr error
	pn, val, stack := mon.Try(func() {
		if _, ok := mm.Cursor(); ok {
			mm.SetCursor(0)
		}
		perr = mm.Print(nrows + 10)
	})
	out := uichk.Out.Take()
	c.Eval(1)
	if pn {
		c.Fail("C32.panic", map[string]string{"site": mon.PanicSite(stack), "memory": kind}, "rendering panicked: %v\n%s\n%s", val, desc(), stack)
		return
	}
	if perr != nil {
		c.Fail("C32.print-error", feat, "Print failed: %v\n%s", perr, desc())
		return
	}
	got, msg := parseRows(out)
	if msg != "" {
		c.Fail("C32.format", feat, "%s\n%s\noutput:\n%s", msg, desc(), out)
		return
	}
	// leading/trailing ellipsis rows are tolerated
	trim := func(rs []row) []row {
		for len(rs) > 0 && rs[0].ellipsis {
			rs = rs[1:]
		}
		for len(rs) > 0 && rs[len(rs)-1].ellipsis {
			rs = rs[:len(rs)-1]
		}
		return rs
	}
	lead := 0
	for lead < len(got) && got[lead].ellipsis {
		lead++
	}
	g, w := trim(got), trim(want)
	show := func(rs []row) string {
		var sb strings.Builder
		for _, x := range rs {
			if x.ellipsis {
				sb.WriteString("  ...\n")
			} else {
				fmt.Fprintf(&sb, "  %#x: %s\n", x.addr, strings.Join(x.cells, " "))
			}
		}
		return sb.String()
	}
	if len(g) != len(w) {
		c.Fail("C32.rows", feat, "the view shows %d rows, expected %d\nshown:\n%sexpected:\n%s%s", len(g), len(w), show(g), show(w), desc())
		return
	}
	hasAbsent, hasEll := false, false
	for i := range g {
		if g[i].ellipsis != w[i].ellipsis || g[i].addr != w[i].addr || strings.Join(g[i].cells, " ") != strings.Join(w[i].cells, " ") {
			c.Fail("C32.rows", feat, "row %d differs\nshown:\n%sexpected:\n%s%s", i, show(g[i:i+1]), show(w[i:i+1]), desc())
			return
		}
		if w[i].ellipsis {
			hasEll = true
		}
		for _, cl := range w[i].cells {
			if cl == ".." {
				hasAbsent = true
			}
		}
	}
	c.Count("memories_"+kind, 1)
	c.Count("rows_compared", len(g))
	// ---- address command through the real command loop
	ui, err := consoleui.New(mm.Mode())
	if err != nil {
		c.Fail("C32.harness", nil, "UI: %v", err)
		return
	}
	s := &uichk.Session{UI: ui}
	rowOf := map[uint64]int{} // window -> index in the view's own rows (with leading ellipsis)
	for i, x := range got {
		if !x.ellipsis {
			rowOf[x.addr] = i
		}
	}
	for p := 0; p < 50; p++ {
		var a uint64
		switch r.Intn(4) {
		case 0: // a stored byte
			for k := range shadow {
				a = k
				break
			}
		case 1:
			a = wl[r.Intn(len(wl))] + uint64(r.Intn(16))
		case 2:
			a = wl[r.Intn(len(wl))] + uint64(16+r.Intn(40)) // maybe a gap
		default:
			a = base + uint64(r.Intn(1500))
		}
		form := []string{"%d", "%#x", "0%o", "0b%b"}[r.Intn(4)]
		line := fmt.Sprintf("%s "+form, []string{"address", "addr", "a"}[r.Intn(3)], a)
		// the lookup must not depend on where the cursor is: move it first (real goto
		// command), preferring ellipsis rows, the first and the last row
		if len(got) > 0 && r.Intn(3) != 0 {
			target := r.Intn(len(got))
			switch r.Intn(4) {
			case 0:
				var ell []int
				for i, x := range got {
					if x.ellipsis {
						ell = append(ell, i)
					}
				}
				if len(ell) > 0 {
					target = ell[r.Intn(len(ell))]
				}
			case 1:
				target = len(got) - 1
			}
			gres := s.Exec(fmt.Sprintf("goto %d", target))
			if gres.Panicked {
				c.Fail("C32.address.panic", map[string]string{"site": mon.PanicSite(gres.Stack)}, "goto %d panicked: %v\n%s\n%s", target, gres.PanicVal, desc(), gres.Stack)
				return
			}
			if cur, _ := mm.Cursor(); cur == target {
				c.Count("address_probes_after_goto", 1)
				if got[target].ellipsis {
					c.Count("address_probes_from_ellipsis_row", 1)
				}
			}
		}
		before, _ := mm.Cursor()
		res := s.Exec(line)
		c.Eval(1)
		if res.Panicked {
			c.Fail("C32.address.panic", map[string]string{"site": mon.PanicSite(res.Stack)}, "%q panicked: %v\n%s\n%s", line, res.PanicVal, desc(), res.Stack)
			return
		}
		after, _ := mm.Cursor()
		failed := strings.Contains(res.Out, "error:")
		_, stored := shadow[a]
		shown := wins[a/16*16]
		switch {
		case stored:
			if failed || after != rowOf[a/16*16] {
				c.Fail("C32.address.stored", feat, "%q (a stored byte): failed=%v, cursor on row %d, the row of window %#x is %d\n%s", line, failed, after, a/16*16, rowOf[a/16*16], desc())
				return
			}
			c.Count("address_hits", 1)
		case !shown:
			if !failed || after != before {
				c.Fail("C32.address.none", feat, "%q lies in no shown window: failed=%v, cursor %d -> %d\n%s", line, failed, before, after, desc())
				return
			}
			c.Count("address_misses", 1)
		default: // absent byte inside a shown window: either selects that row or reports none
			if failed && after != before || !failed && after != rowOf[a/16*16] {
				c.Fail("C32.address.absent", feat, "%q (absent byte in a shown window): failed=%v, cursor %d -> %d, window row %d\n%s", line, failed, before, after, rowOf[a/16*16], desc())
				return
			}
			c.Count("address_absent_cells", 1)
		}
	}
	if hasAbsent && hasEll {
		c.Nontrivial(desc())
	}
	if c.WantSample() && len(hist) < 8 {
		c.Sample(map[string]any{"memory": hist, "rows": strings.Split(strings.TrimSpace(show(w)), "\n")})
	}
}

func main() {
	mon.Main(mon.Spec{
		Prop:        "C32",
		Rule:        "case = memory (Sparse, Bytes or Overlay(Bytes,Sparse)) with constant content written as 1..3 clusters of overlapping stores of widths 1..16 (bytes written as parts of wider values, partially overwritten) at bases {0,0x1000,0x1ffe8,0xfff0,2^40,2^63-8,0xffffffff80000000,2^64-0x1000}; the whole view is rendered and parsed back from stdout, then 50 'address' commands (decimal/hex/octal/binary spellings) are executed through the real command loop, two thirds of them after a real 'goto' to another row (ellipsis rows, first and last row preferred); non-trivial = memory whose rows contain an absent cell and at least one ellipsis between rows; distinct by store history",
		Explanation: "oracle: shadow byte map -> expected rows: one per 16-byte aligned window touching stored bytes, in address order, each cell the hex value or the absent mark, an ellipsis row between non-consecutive windows (leading/trailing ellipsis rows tolerated); 'address a' must select the row of a stored byte, must fail and keep the cursor when a lies in no shown window, and may do either for an absent byte inside a shown window",
		Assumptions: []string{"row syntax parsed back with a regular expression transcribed from the rendered layout", "memory view reached through verif hooks"},
		Cases: func(t string) int {
			if t == "thorough" {
				return 1500000
			}
			return 15000
		},
		Floor: func(t string) int {
			if t == "thorough" {
				return 30000
			}
			return 1200
		},
		RequiredCounts: []string{"memories_sparse", "memories_bytes", "memories_overlay", "address_hits", "address_misses", "address_absent_cells", "rows_compared", "address_probes_after_goto", "address_probes_from_ellipsis_row"},
		Run:            run,
	})
}
