// C31 – navigation commands land on the right line. Oracle: shadow cursor.
package main

import (
	"fmt"
	"math"
	"regexp"
	"strings"

	"mltwist/internal/consoleui/disassemble"
	"mltwist/verifh/mon"
	"mltwist/verifh/uichk"
)

func run(c *mon.Case) {
	uichk.Init()
	r := c.Rng
	s, err := uichk.NewSessionAt(r, 4, uichk.PickBase(r))
	if err != nil {
		c.Count("session_build_failed", 1)
		return
	}
	var hist []string
	desc := func() string {
		h := hist
		if len(h) > 50 {
			h = h[len(h)-50:]
		}
		return fmt.Sprintf("commands: %s\nprogram (entry %#x):\n%s", strings.Join(h, "; "), s.Code.Entrypoint(), s.Prog.Listing())
	}
	state := func() ([]string, int) {
		ls, cur, _ := disassemble.VerifListing(s.UI.VerifMode())
		out := make([]string, len(ls))
		for i, l := range ls {
			out[i] = l.Text
		}
		return out, cur
	}
	first, last, wrapFind := false, false, false
	patterns := []string{"addi", "Block", "x8", "lui", "s[bhwd]", "x", "lw|ld", "^Block", "ZZZ", "l[a-z]+u", "jal", "Block.[a-z]?:", "a.d", "(x|y)",
		// patterns that (also) match the empty text of the blank lines between blocks
		".*", "^$", "x*", "a?", "$", "^", "(addi)?", "[a-z]*$"}
	for n := 0; n < 80; n++ {
		lines, cur := state()
		L := len(lines)
		if cur == 0 {
			first = true
		}
		if cur == L-1 {
			last = true
		}
		num := func() int {
			switch r.Intn(8) {
			case 0:
				return 0
			case 1:
				return 1
			case 2:
				return L - 1
			case 3:
				return L
			case 4:
				return math.MaxInt
			case 5:
				return L - 1 - cur // lands exactly on the last line with 'down'
			case 6:
				return cur // lands on the first line with 'up'
			}
			return r.Intn(L + 3)
		}
		var line string
		want := cur      // expected cursor
		mustErr := false // the command must be answered with an error
		mayErr := false
		switch x := r.Intn(100); {
		case x < 25:
			k := num()
			line = fmt.Sprintf("%s %d", []string{"down", "d"}[r.Intn(2)], k)
			if k >= L-cur { // cur+k >= L (k may be MaxInt)
				mustErr = true
			} else {
				want = cur + k
			}
		case x < 45:
			k := num()
			line = fmt.Sprintf("%s %d", []string{"up", "u"}[r.Intn(2)], k)
			if k > cur {
				mustErr = true
			} else {
				want = cur - k
			}
		case x < 60:
			k := num()
			line = fmt.Sprintf("%s %d", []string{"goto", "g"}[r.Intn(2)], k)
			if k >= L {
				mustErr = true
			} else {
				want = k
			}
		case x < 65:
			k := -1 - r.Intn(5)
			line = fmt.Sprintf("%s %d", []string{"down", "up", "goto"}[r.Intn(3)], k)
			mustErr = true // negative numbers are refused (moving by N would also satisfy the statement for down/up)
			if !strings.HasPrefix(line, "goto") {
				mustErr, mayErr = false, true
				// either refused (cursor unchanged) or moved by N
			}
		case x < 72:
			line = []string{"entrypoint", "entry"}[r.Intn(2)]
			_, lineOf := uichk.RenderListing(s.Code)
			l, ok := lineOf[uint64(s.Code.Entrypoint())]
			if !ok {
				mustErr = true
			} else {
				want = l
			}
		case x < 90:
			p := patterns[r.Intn(len(patterns))]
			line = fmt.Sprintf("%s %s", []string{"find", "f", "/"}[r.Intn(3)], p)
			re := regexp.MustCompilePOSIX(p)
			found := -1
			for k := 1; k < L; k++ { // strictly after the cursor, cyclically, cursor line excluded
				i := (cur + k) % L
				if re.MatchString(lines[i]) {
					found = i
					break
				}
			}
			if found >= 0 {
				want = found
				if found < cur {
					wrapFind = true
				}
			}
			// no match: message, cursor unchanged (not necessarily an 'error:' line)
		default: // interleave moves so that the listing changes
			a, b := r.Intn(L), r.Intn(L)
			line = fmt.Sprintf("move %d %d", a, b)
			hist = append(hist, line)
			res := s.Exec(line)
			if res.Panicked {
				c.Count("move_panics_not_judged_here", 1)
				return
			}
			if _, c2 := state(); c2 != cur {
				c.Fail("C31.move-moved-cursor", nil, "%q changed the cursor from %d to %d\n%s", line, cur, c2, desc())
				return
			}
			continue
		}
		hist = append(hist, fmt.Sprintf("[cursor %d/%d] %s", cur, L, line))
		res := s.Exec(line)
		c.Eval(1)
		kind := strings.Fields(line)[0]
		feat := map[string]string{"cmd": cmdClass(kind), "cursor": posClass(cur, L)}
		if res.Panicked {
			feat["site"] = mon.PanicSite(res.Stack)
			c.Fail("C31.panic", feat, "%q with the cursor on line %d of %d panicked: %v\n%s\n%s", line, cur, L, res.PanicVal, desc(), res.Stack)
			return
		}
		_, got := state()
		failed := strings.Contains(res.Out, "error:")
		switch {
		case mayErr:
			if failed && got != cur {
				c.Fail("C31.error-moved-cursor", feat, "%q failed but moved the cursor from %d to %d\n%s", line, cur, got, desc())
				return
			}
		case mustErr:
			if !failed {
				c.Fail("C31.no-error", feat, "%q with the cursor on line %d of %d must fail but did not (cursor now %d)\n%s", line, cur, L, got, desc())
				return
			}
			if got != cur {
				c.Fail("C31.error-moved-cursor", feat, "%q failed but moved the cursor from %d to %d\n%s", line, cur, got, desc())
				return
			}
		default:
			if failed {
				if got != cur {
					c.Fail("C31.error-moved-cursor", feat, "%q failed but moved the cursor from %d to %d\n%s", line, cur, got, desc())
					return
				}
				c.Fail("C31.unexpected-error", feat, "%q with the cursor on line %d of %d failed (%q); it should place the cursor on line %d\n%s", line, cur, L, firstLine(res.Out), want, desc())
				return
			}
			if got != want {
				c.Fail("C31.wrong-line", feat, "%q with the cursor on line %d of %d placed the cursor on line %d, expected %d\n%s", line, cur, L, got, want, desc())
				return
			}
		}
		c.Count("cmd_"+cmdClass(kind), 1)
	}
	c.Count("sessions", 1)
	if first && last && wrapFind {
		c.Nontrivial(desc())
	}
	if wrapFind {
		c.Count("sessions_with_wrapping_find", 1)
	}
	if c.WantSample() && len(hist) > 8 {
		c.Sample(hist[:8])
	}
}

func firstLine(s string) string {
	if i := strings.Index(s, "error:"); i >= 0 {
		s = s[i:]
	}
	if i := strings.IndexByte(s, '\n'); i >= 0 {
		s = s[:i]
	}
	return s
}

func cmdClass(k string) string {
	switch k {
	case "d", "down":
		return "down"
	case "u", "up":
		return "up"
	case "g", "goto":
		return "goto"
	case "f", "find", "/":
		return "find"
	}
	return "entrypoint"
}

func posClass(cur, L int) string {
	switch {
	case cur == 0:
		return "first"
	case cur == L-1:
		return "last"
	}
	return "middle"
}

func main() {
	mon.Main(mon.Spec{
		Prop:        "C31",
		Rule:        "case = disassembler session of 80 commands over a generated multi-block program: down/up/goto with N in {0,1,len-1,len,MaxInt,exactly-to-the-edge,random,negative}, entrypoint, find with single-token digit-free POSIX patterns built from mnemonics, register prefixes and 'Block' and patterns that match the empty text of blank lines (.*, ^$, x*, ...), interleaved with instruction and block moves; non-trivial = session whose cursor reached the first and the last line and that contained a find wrapping around the end; distinct by command history",
		Explanation: "oracle: shadow cursor over the listing text read through the hook: down/up move by N or fail when leaving [0,len); goto n fails for n>=len; entrypoint lands on the line of the instruction currently at the entry address (independent rendering); find lands on the first line strictly after the cursor, cyclically, cursor line excluded, whose text matches (Go POSIX regexp as reference), and leaves the cursor when nothing matches; every failing command must leave the cursor unchanged; negative N for down/up may be refused or honoured",
		Assumptions: []string{"listing and cursor read through the hook disassemble.VerifListing", "regexp.CompilePOSIX of the standard library as matching reference"},
		Cases: func(t string) int {
			if t == "thorough" {
				return 600000
			}
			return 10000
		},
		Floor: func(t string) int {
			if t == "thorough" {
				return 20000
			}
			return 800
		},
		RequiredCounts: []string{"cmd_down", "cmd_up", "cmd_goto", "cmd_find", "cmd_entrypoint", "sessions_with_wrapping_find"},
		Run:            run,
	})
}
