// C03 – emulation agrees step by step with a RISC-V machine.
package main

import (
	"mltwist/verifh/emuchk"
	"mltwist/verifh/mon"
)

func main() {
	mon.Main(mon.Spec{
		Prop:        "C03",
		Rule:        "case = generated RV64IMA program (10-60 instructions: ALU/M mix, loads and stores of all widths at overlapping, misaligned offsets of a 64-byte data window straddling image data and unmapped memory, AMO/LR/SC, CSR, fences, branches and jal to valid instruction starts incl. backward ones, jalr to computed valid/misaligned/out-of-range targets), assembled exactly like cmd/mltwist (code image -> parser.Parse -> deps.NewCode -> emulator over Overlay(Bytes(image), Sparse)), some runs with pre-populated registers/memory; up to 200 steps compared after every step; non-trivial = program with a load that partially overlaps an earlier store and a taken branch, distinct by listing",
		Explanation: "oracle: refrv reference machine whose initial registers/bytes are the same deterministic provider function the emulator is given; after every step IP, every register known to the emulator, every byte touched, and the Step record (register/memory reads and writes with values, as sets; reads that cannot influence state are optional) are compared; Step must fail exactly when IP is not at a decoded instruction; a run ends when the reference stores into the code section",
		Assumptions: []string{"refrv reference interpreter", "CSR register keys follow the product's csr<N> spelling", "code image built through the verif hook elf.VerifNewMemory"},
		Cases: func(t string) int {
			if t == "thorough" {
				return 400000
			}
			return 30000
		},
		Floor: func(t string) int {
			if t == "thorough" {
				return 20000
			}
			return 1000
		},
		RequiredCounts: []string{"steps", "programs_with_partial_overlap_load", "programs_with_taken_branch", "runs_ended_outside_code", "prepopulated_runs"},
		Run:            func(c *mon.Case) { emuchk.RunCase(c, "C03") },
	})
}
