// C25 – disassembly text is faithful. Oracle: behaviour comparison of lifted effects
// under the reference IR semantics (differing results prove differing behaviour).
package main

import (
	"fmt"
	"math/big"
	"regexp"
	"strings"

	"mltwist/internal/riscv"
	"mltwist/pkg/expr"
	"mltwist/pkg/model"
	"mltwist/verifh/mon"
	"mltwist/verifh/refir"
	"mltwist/verifh/refrv"
	"mltwist/verifh/rvgen"
)

type pair struct {
	cfg refrv.Cfg
	def refrv.Def
}

var pairs = func() []pair {
	var out []pair
	for _, x := range []int{32, 64} {
		c := refrv.Cfg{XLEN: x, M: true, A: true}
		for _, d := range refrv.DefsFor(c) {
			out = append(out, pair{c, d})
		}
	}
	return out
}()

var parsers = map[refrv.Cfg]riscv.Parser{}

func parser(c refrv.Cfg) riscv.Parser {
	p, ok := parsers[c]
	if !ok {
		p = rvgen.Parser(c)
		parsers[c] = p
	}
	return p
}

type lifted struct {
	w    uint32
	text string
	name string
	efs  []expr.Effect
}

func lift(c *mon.Case, cfg refrv.Cfg, addr uint64, w uint32) (lifted, bool) {
	var ins model.Instruction
	var err error
	var text, name string
	pn, val, stack := mon.Try(func() {
		ins, err = parser(cfg).Parse(model.Addr(addr), rvgen.LE(w))
		if err == nil {
			text, name = ins.Details.String(), ins.Details.Name()
		}
	})
	if pn {
		c.Fail("C25.panic", map[string]string{"site": mon.PanicSite(stack)}, "%s Parse/String of %#08x at %#x panicked: %v\n%s", cfg, w, addr, val, stack)
		return lifted{}, false
	}
	if err != nil {
		return lifted{}, false
	}
	return lifted{w, text, name, ins.Effects}, true
}

// differs reports whether the two effect lists provably behave differently: some
// valuation leads to different registers, instruction pointer or memory.
func differs(a, b []expr.Effect, xlen int, addr uint64, seed uint64) (bool, string) {
	for i, env := range refir.Envs(seed, 4) {
		sa, sb := refir.NewState(env), refir.NewState(env)
		sa.AddrBits, sb.AddrBits = uint(xlen), uint(xlen)
		sa.Apply(a)
		sb.Apply(b)
		keys := map[string]bool{}
		for k := range sa.Regs {
			keys[k] = true
		}
		for k := range sb.Regs {
			keys[k] = true
		}
		for k := range keys {
			va, vb := sa.Reg(k), sb.Reg(k)
			if k == string(expr.IPKey) {
				// absent IP write = fall through
				ft := new(big.Int).SetUint64(addr + 4)
				if xlen == 32 {
					ft = new(big.Int).SetUint64((addr + 4) & 0xffffffff)
				}
				if _, ok := sa.Regs[k]; !ok {
					va = ft
				}
				if _, ok := sb.Regs[k]; !ok {
					vb = ft
				}
			}
			if va.Cmp(vb) != 0 {
				return true, fmt.Sprintf("valuation %d: register %s ends as %#x vs %#x", i, k, va, vb)
			}
		}
		for mk, mm := range sa.Mems {
			for as := range mm {
				ai, _ := new(big.Int).SetString(as, 10)
				if x, y := sa.Mem(mk, ai), sb.Mem(mk, ai); x != y {
					return true, fmt.Sprintf("valuation %d: %s[%#x] ends as %#02x vs %#02x", i, mk, ai, x, y)
				}
			}
		}
		for mk, mm := range sb.Mems {
			for as := range mm {
				ai, _ := new(big.Int).SetString(as, 10)
				if x, y := sa.Mem(mk, ai), sb.Mem(mk, ai); x != y {
					return true, fmt.Sprintf("valuation %d: %s[%#x] ends as %#02x vs %#02x", i, mk, ai, x, y)
				}
			}
		}
	}
	return false, ""
}

var memForm = regexp.MustCompile(`-?[0-9]+\(x[0-9]+\)$`)

func fieldOf(bit uint) string {
	switch {
	case bit < 7:
		return "opcode"
	case bit < 12:
		return "bits7-11(rd/imm)"
	case bit < 15:
		return "funct3"
	case bit < 20:
		return "bits15-19(rs1/zimm)"
	case bit < 25:
		return "bits20-24(rs2/shamt/imm)"
	default:
		return "bits25-31(funct7/imm)"
	}
}

func run(c *mon.Case) {
	r := c.Rng
	p := pairs[c.Idx%len(pairs)]
	cfg, d := p.cfg, p.def
	addr := []uint64{0x1000, 0, 0x7ffff000, 0x10000}[r.Intn(4)]
	byText := map[string]lifted{}
	for sub := 0; sub < 12; sub++ {
		w := rvgen.Word(r, d)
		if dd, ok := refrv.Decode(cfg, w); !ok || dd.Name != d.Name {
			continue
		}
		base, ok := lift(c, cfg, addr, w)
		if !ok {
			continue
		}
		c.Eval(1)
		feat := map[string]string{"variant": fmt.Sprint(cfg.XLEN), "name": d.Name}
		// mnemonic first
		if !strings.HasPrefix(base.text, base.name+" ") && base.text != base.name {
			c.Fail("C25.mnemonic", feat, "%s %#08x: text %q does not start with mnemonic %q", cfg, w, base.text, base.name)
			continue
		}
		// loads/stores: offset(base)
		if d.Fmt == refrv.FmtLoad || d.Fmt == refrv.FmtS {
			if !memForm.MatchString(base.text) {
				c.Fail("C25.memform", feat, "%s %#08x: load/store text %q is not in offset(base) form", cfg, w, base.text)
				continue
			}
			want := fmt.Sprintf("%d(x%d)", func() int64 {
				if d.Fmt == refrv.FmtS {
					return refrv.ImmS(w)
				}
				return refrv.ImmI(w)
			}(), refrv.Rs1(w))
			if !strings.HasSuffix(base.text, want) {
				c.Fail("C25.memform", feat, "%s %#08x: text %q, expected the address operand %q", cfg, w, base.text, want)
				continue
			}
		}
		// influence test: all single bit neighbours that are still accepted
		influencing := 0
		for bit := uint(0); bit < 32; bit++ {
			w2 := w ^ 1<<bit
			nb, ok := lift(c, cfg, addr, w2)
			if !ok {
				continue
			}
			c.Eval(1)
			diff, why := differs(base.efs, nb.efs, cfg.XLEN, addr, uint64(c.Idx)*64+uint64(sub))
			if !diff {
				continue
			}
			influencing++
			if nb.text == base.text {
				f2 := map[string]string{"variant": fmt.Sprint(cfg.XLEN), "name": d.Name, "field": fieldOf(bit)}
				c.Fail("C25.influence", f2, "%s at %#x: words %#08x and %#08x (bit %d flipped) are both shown as %q but behave differently: %s", cfg, addr, w, w2, bit, base.text, why)
				break
			}
		}
		if influencing > 0 {
			c.Nontrivial(fmt.Sprintf("%s|%08x", cfg, w))
			c.Count("words_with_influencing_neighbours", 1)
		}
		// bucket test
		if o, ok := byText[base.text]; ok && o.w != w {
			if diff, why := differs(base.efs, o.efs, cfg.XLEN, addr, uint64(c.Idx)); diff {
				c.Fail("C25.bucket", feat, "%s at %#x: words %#08x and %#08x are both shown as %q but behave differently: %s", cfg, addr, w, o.w, base.text, why)
			}
		}
		byText[base.text] = base
		c.Count("words", 1)
		if c.WantSample() {
			c.Sample(map[string]string{"cfg": cfg.String(), "word": fmt.Sprintf("%#08x", w), "text": base.text})
		}
	}
}

func main() {
	mon.Main(mon.Spec{
		Prop:        "C25",
		Rule:        "case = accepted word (every mnemonic of RV32IMA and RV64IMA, boundary-biased operand fields) together with all of its accepted single-bit neighbours at the same address; non-trivial = word with >=1 neighbour whose behaviour provably differs, distinct by (configuration, word)",
		Explanation: "oracle: two words whose lifted effects, applied with the reference IR semantics to the same hashed valuations, end in different registers/IP/memory provably behave differently and must not share their text; text must start with the mnemonic; load/store text must end in offset(base) with the decoded offset and base register. Neighbours with equal results on all valuations are not judged.",
		Assumptions: []string{"refir evaluator", "behaviour difference is established on 6 valuations (sound: equal results are never reported)"},
		Cases: func(t string) int {
			if t == "thorough" {
				return len(pairs) * 1500
			}
			return len(pairs) * 40
		},
		Floor: func(t string) int {
			if t == "thorough" {
				return 1000000
			}
			return 10000
		},
		RequiredCounts: []string{"words_with_influencing_neighbours"},
		Run:            run,
	})
}
