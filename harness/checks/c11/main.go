// C11 – expression gadgets compute their documented functions. Oracle: math/big.
package main

import (
	"fmt"
	"math/big"
	"math/rand"

	"mltwist/internal/exprtransform"
	"mltwist/pkg/expr"
	"mltwist/pkg/expr/exprtools"
	"mltwist/verifh/gen"
	"mltwist/verifh/mon"
	"mltwist/verifh/refir"
)

var one = big.NewInt(1)

func mod2(w int) *big.Int             { return refir.Mod2(w) }
func ones(w int) *big.Int             { return new(big.Int).Sub(mod2(w), one) }
func wrap(v *big.Int, w int) *big.Int { return new(big.Int).Mod(v, mod2(w)) } // euclidean: handles negatives
func signed(v *big.Int, w int) *big.Int {
	if v.Bit(8*w-1) == 1 {
		return new(big.Int).Sub(v, mod2(w))
	}
	return new(big.Int).Set(v)
}
func b2i(b bool) *big.Int {
	if b {
		return big.NewInt(1)
	}
	return new(big.Int)
}

// gadget: build(operands, w) and ref(values, w) -> (expected value, expected width)
type gadget struct {
	name   string
	nOps   int // operands of the gadget width
	maxW   int
	build  func(o []expr.Expr, w expr.Width, aux int) expr.Expr
	ref    func(v []*big.Int, w int, aux int) (*big.Int, int)
	auxMax func(w int) int // aux parameter range (0 = none)
	// nonzeroOnly: result only specified as zero / nonzero
	nonzeroOnly bool
}

func sel(c bool, t, f *big.Int) *big.Int {
	if c {
		return t
	}
	return f
}

var gadgets = []gadget{
	{name: "Negate", nOps: 1, build: func(o []expr.Expr, w expr.Width, _ int) expr.Expr { return exprtools.Negate(o[0], w) },
		ref: func(v []*big.Int, w int, _ int) (*big.Int, int) { return wrap(new(big.Int).Neg(v[0]), w), w }},
	{name: "Sub", nOps: 2, build: func(o []expr.Expr, w expr.Width, _ int) expr.Expr { return exprtools.Sub(o[0], o[1], w) },
		ref: func(v []*big.Int, w int, _ int) (*big.Int, int) { return wrap(new(big.Int).Sub(v[0], v[1]), w), w }},
	{name: "Abs", nOps: 1, build: func(o []expr.Expr, w expr.Width, _ int) expr.Expr { return exprtools.Abs(o[0], w) },
		ref: func(v []*big.Int, w int, _ int) (*big.Int, int) { return wrap(new(big.Int).Abs(signed(v[0], w)), w), w }},
	{name: "Ones", nOps: 0, build: func(o []expr.Expr, w expr.Width, _ int) expr.Expr { return exprtools.Ones(w) },
		ref: func(v []*big.Int, w int, _ int) (*big.Int, int) { return ones(w), w }},
	{name: "Mod", nOps: 2, build: func(o []expr.Expr, w expr.Width, _ int) expr.Expr { return exprtools.Mod(o[0], o[1], w) },
		ref: func(v []*big.Int, w int, _ int) (*big.Int, int) {
			if v[1].Sign() == 0 {
				return v[0], w
			}
			return new(big.Int).Mod(v[0], v[1]), w
		}},
	{name: "SignedMul", nOps: 2, maxW: 127, build: func(o []expr.Expr, w expr.Width, _ int) expr.Expr { return exprtools.SignedMul(o[0], o[1], w) },
		ref: func(v []*big.Int, w int, _ int) (*big.Int, int) {
			return wrap(new(big.Int).Mul(signed(v[0], w), signed(v[1], w)), 2*w), 2 * w
		}},
	{name: "SignedDiv", nOps: 2, build: func(o []expr.Expr, w expr.Width, _ int) expr.Expr { return exprtools.SignedDiv(o[0], o[1], w) },
		ref: func(v []*big.Int, w int, _ int) (*big.Int, int) {
			if v[1].Sign() == 0 {
				return ones(w), w
			}
			q := new(big.Int).Quo(signed(v[0], w), signed(v[1], w)) // truncating
			return wrap(q, w), w                                    // MIN/-1 wraps to MIN = the dividend
		}},
	{name: "SignedMod", nOps: 2, build: func(o []expr.Expr, w expr.Width, _ int) expr.Expr { return exprtools.SignedMod(o[0], o[1], w) },
		ref: func(v []*big.Int, w int, _ int) (*big.Int, int) {
			a, b := signed(v[0], w), signed(v[1], w)
			if b.Sign() == 0 {
				return v[0], w
			}
			m := new(big.Int).Mod(new(big.Int).Abs(a), new(big.Int).Abs(b))
			if (a.Sign() < 0) != (b.Sign() < 0) {
				m.Neg(m)
			}
			return wrap(m, w), w
		}},
	{name: "SignExtend", nOps: 1, auxMax: func(w int) int { return 8 * w },
		build: func(o []expr.Expr, w expr.Width, aux int) expr.Expr {
			return exprtools.SignExtend(o[0], expr.ConstFromUint(uint16(aux)), w)
		},
		ref: func(v []*big.Int, w int, aux int) (*big.Int, int) {
			low := new(big.Int).And(v[0], new(big.Int).Sub(new(big.Int).Lsh(one, uint(aux)), one))
			if v[0].Bit(aux) == 1 {
				hi := new(big.Int).Sub(mod2(w), new(big.Int).Lsh(one, uint(aux)))
				return low.Or(low, hi), w
			}
			return low, w
		}},
	{name: "RshA", nOps: 1, auxMax: func(w int) int { return 8*w + 20 },
		build: func(o []expr.Expr, w expr.Width, aux int) expr.Expr {
			return exprtools.RshA(o[0], expr.ConstFromUint(uint16(aux)), w)
		},
		ref: func(v []*big.Int, w int, aux int) (*big.Int, int) {
			return wrap(new(big.Int).Rsh(signed(v[0], w), uint(aux)), w), w // big.Int Rsh is arithmetic
		}},
	{name: "BitNot", nOps: 1, build: func(o []expr.Expr, w expr.Width, _ int) expr.Expr { return exprtools.BitNot(o[0], w) },
		ref: func(v []*big.Int, w int, _ int) (*big.Int, int) { return new(big.Int).Xor(v[0], ones(w)), w }},
	{name: "BitAnd", nOps: 2, build: func(o []expr.Expr, w expr.Width, _ int) expr.Expr { return exprtools.BitAnd(o[0], o[1], w) },
		ref: func(v []*big.Int, w int, _ int) (*big.Int, int) { return new(big.Int).And(v[0], v[1]), w }},
	{name: "BitOr", nOps: 2, build: func(o []expr.Expr, w expr.Width, _ int) expr.Expr { return exprtools.BitOr(o[0], o[1], w) },
		ref: func(v []*big.Int, w int, _ int) (*big.Int, int) { return new(big.Int).Or(v[0], v[1]), w }},
	{name: "BitXor", nOps: 2, build: func(o []expr.Expr, w expr.Width, _ int) expr.Expr { return exprtools.BitXor(o[0], o[1], w) },
		ref: func(v []*big.Int, w int, _ int) (*big.Int, int) { return new(big.Int).Xor(v[0], v[1]), w }},
	{name: "Bool", nOps: 1, build: func(o []expr.Expr, w expr.Width, _ int) expr.Expr { return exprtools.Bool(o[0]) },
		ref: func(v []*big.Int, w int, _ int) (*big.Int, int) { return b2i(v[0].Sign() != 0), 1 }},
	{name: "Not", nOps: 1, build: func(o []expr.Expr, w expr.Width, _ int) expr.Expr { return exprtools.Not(o[0]) },
		ref: func(v []*big.Int, w int, _ int) (*big.Int, int) { return b2i(v[0].Sign() == 0), 1 }},
	{name: "BoolCond", nOps: 3, build: func(o []expr.Expr, w expr.Width, _ int) expr.Expr { return exprtools.BoolCond(o[0], o[1], o[2], w) },
		ref: func(v []*big.Int, w int, _ int) (*big.Int, int) { return sel(v[0].Sign() != 0, v[1], v[2]), w }},
	{name: "Eq", nOps: 4, build: func(o []expr.Expr, w expr.Width, _ int) expr.Expr { return exprtools.Eq(o[0], o[1], o[2], o[3], w) },
		ref: func(v []*big.Int, w int, _ int) (*big.Int, int) { return sel(v[0].Cmp(v[1]) == 0, v[2], v[3]), w }},
	{name: "Lts", nOps: 4, build: func(o []expr.Expr, w expr.Width, _ int) expr.Expr { return exprtools.Lts(o[0], o[1], o[2], o[3], w) },
		ref: func(v []*big.Int, w int, _ int) (*big.Int, int) {
			return sel(signed(v[0], w).Cmp(signed(v[1], w)) < 0, v[2], v[3]), w
		}},
	{name: "Leu", nOps: 4, build: func(o []expr.Expr, w expr.Width, _ int) expr.Expr { return exprtools.Leu(o[0], o[1], o[2], o[3], w) },
		ref: func(v []*big.Int, w int, _ int) (*big.Int, int) { return sel(v[0].Cmp(v[1]) <= 0, v[2], v[3]), w }},
	{name: "Les", nOps: 4, build: func(o []expr.Expr, w expr.Width, _ int) expr.Expr { return exprtools.Les(o[0], o[1], o[2], o[3], w) },
		ref: func(v []*big.Int, w int, _ int) (*big.Int, int) {
			return sel(signed(v[0], w).Cmp(signed(v[1], w)) <= 0, v[2], v[3]), w
		}},
	{name: "MaskBits", nOps: 1, auxMax: func(w int) int { return 8*w + 1 },
		build: func(o []expr.Expr, w expr.Width, aux int) expr.Expr {
			return exprtools.MaskBits(o[0], exprtools.BitCnt(aux), w)
		},
		ref: func(v []*big.Int, w int, aux int) (*big.Int, int) {
			return new(big.Int).And(v[0], new(big.Int).Sub(new(big.Int).Lsh(one, uint(aux)), one)), w
		}},
	{name: "IntNegative", nOps: 1, nonzeroOnly: true, build: func(o []expr.Expr, w expr.Width, _ int) expr.Expr { return exprtools.IntNegative(o[0], w) },
		ref: func(v []*big.Int, w int, _ int) (*big.Int, int) { return b2i(v[0].Bit(8*w-1) == 1), w }},
	{name: "WidthGadget", nOps: 1, auxMax: func(w int) int { return 255 },
		build: func(o []expr.Expr, w expr.Width, aux int) expr.Expr {
			return exprtools.NewWidthGadget(o[0], expr.Width(aux+1))
		},
		ref: func(v []*big.Int, w int, aux int) (*big.Int, int) { return refir.Adjust(v[0], aux+1), aux + 1 }},
	// a width gadget on top of a width gadget (narrow then widen, widen then narrow, ...):
	// aux encodes the two widths (both from the boundary set)
	{name: "WidthGadgetChain", nOps: 1, auxMax: func(w int) int { return len(gen.BoundaryWidths)*len(gen.BoundaryWidths) - 1 },
		build: func(o []expr.Expr, w expr.Width, aux int) expr.Expr {
			n := len(gen.BoundaryWidths)
			return exprtools.NewWidthGadget(exprtools.NewWidthGadget(o[0], gen.BoundaryWidths[aux/n]), gen.BoundaryWidths[aux%n])
		},
		ref: func(v []*big.Int, w int, aux int) (*big.Int, int) {
			n := len(gen.BoundaryWidths)
			w1, w2 := int(gen.BoundaryWidths[aux/n]), int(gen.BoundaryWidths[aux%n])
			return refir.Adjust(refir.Adjust(v[0], w1), w2), w2
		}},
}

// operand value classes for width w
func value(r *rand.Rand, w int) (*big.Int, string) {
	switch r.Intn(9) {
	case 0:
		return new(big.Int), "0"
	case 1:
		return big.NewInt(1), "1"
	case 2:
		return ones(w), "-1"
	case 3:
		return new(big.Int).Lsh(one, uint(8*w-1)), "MIN"
	case 4:
		return new(big.Int).Add(new(big.Int).Lsh(one, uint(8*w-1)), one), "MIN+1"
	case 5:
		return new(big.Int).Sub(new(big.Int).Lsh(one, uint(8*w-1)), one), "MAX"
	case 6:
		return wrap(big.NewInt(int64(r.Intn(40))-20), w), "small"
	default:
		return refir.FromLE(gen.ConstBytes(r, w)), "rand"
	}
}

func widthFor(c *mon.Case, r *rand.Rand) int {
	if c.Quick() {
		return int(gen.BoundaryWidths[r.Intn(len(gen.BoundaryWidths))])
	}
	if r.Intn(3) == 0 {
		return int(gen.BoundaryWidths[r.Intn(len(gen.BoundaryWidths))])
	}
	return 1 + r.Intn(255)
}

func run(c *mon.Case) {
	r := c.Rng
	g := gadgets[c.Idx%len(gadgets)]
	for sub := 0; sub < 40; sub++ {
		w := widthFor(c, r)
		if g.maxW > 0 && w > g.maxW {
			w = 1 + r.Intn(g.maxW)
		}
		aux := 0
		if g.auxMax != nil {
			m := g.auxMax(w)
			switch r.Intn(4) {
			case 0:
				aux = m - 1
			case 1:
				aux = 0
			default:
				aux = r.Intn(m)
			}
		}
		vals := make([]*big.Int, g.nOps)
		classes := ""
		consts := make([]expr.Expr, g.nOps)
		syms := make([]expr.Expr, g.nOps)
		over := map[string]*big.Int{}
		for i := range vals {
			var cl string
			vals[i], cl = value(r, w)
			if i == 1 && r.Intn(5) == 0 {
				vals[1], cl = vals[0], "same"
			}
			classes += cl + ","
			consts[i] = expr.NewConst(refir.ToLE(vals[i], w), expr.Width(w))
			key := fmt.Sprintf("op%d", i)
			syms[i] = expr.NewRegLoad(expr.NewKey(key), expr.Width(w))
			over[key] = vals[i]
		}
		want, ww := g.ref(vals, w, aux)
		feat := map[string]string{"gadget": g.name}
		desc := fmt.Sprintf("%s(w=%d, aux=%d, operands(LE)=%s)", g.name, w, aux, fmtVals(vals, w))
		c.Eval(1)
		// path 1: constants through the product's folder
		var folded expr.Expr
		var built expr.Expr
		snap := fmtConsts(consts)
		mid := ""
		p, val, stack := mon.Try(func() {
			built = g.build(consts, expr.Width(w), aux)
			exprtransform.ConstFold(built)
			mid = fmtConsts(consts)
			folded = exprtransform.ConstFold(built) // the second fold of the same tree is the one judged
		})
		if p {
			c.Fail("C11.panic", feat, "%s panicked: %v\n%s", desc, val, stack)
			continue
		}
		if now := fmtConsts(consts); mid != snap || now != snap {
			c.Fail("C11.input-mutated", feat, "%s: building/folding changed an operand constant: %x -> %x -> %x (width byte, then LE bytes, per operand)", desc, snap, mid, now)
			continue
		}
		fc, ok := folded.(expr.Const)
		if !ok || int(fc.Width()) != ww {
			c.Fail("C11.fold.shape", feat, "%s folded to %s, want a constant of width %d", desc, clip(refir.String(folded)), ww)
			continue
		}
		if !agree(refir.FromLE(fc.Bytes()), want, g.nonzeroOnly) {
			c.Fail("C11.fold.value", feat, "%s folded to %x, documented function gives %x (LE)", desc, fc.Bytes(), refir.ToLE(want, ww))
			continue
		}
		// path 2: symbolic operands under the reference evaluator
		var sb expr.Expr
		p, val, stack = mon.Try(func() { sb = g.build(syms, expr.Width(w), aux) })
		if p {
			c.Fail("C11.panic", feat, "%s (symbolic) panicked: %v\n%s", desc, val, stack)
			continue
		}
		if int(sb.Width()) != ww {
			c.Fail("C11.eval.width", feat, "%s has width %d, want %d", desc, sb.Width(), ww)
			continue
		}
		got := refir.Eval(sb, refir.HashEnv{RegOverride: over})
		if !agree(got, want, g.nonzeroOnly) {
			c.Fail("C11.eval.value", feat, "%s evaluates to %x, documented function gives %x (LE)", desc, refir.ToLE(got, ww), refir.ToLE(want, ww))
			continue
		}
		c.Count("gadget_"+g.name, 1)
		c.Nontrivial(desc)
		if c.WantSample() && w <= 4 {
			c.Sample(map[string]string{"case": desc, "expr": clip(refir.String(built)), "value_le": fmt.Sprintf("%x", refir.ToLE(want, ww))})
		}
		_ = classes
	}
}

func agree(got, want *big.Int, nonzeroOnly bool) bool {
	if nonzeroOnly {
		return (got.Sign() != 0) == (want.Sign() != 0)
	}
	return got.Cmp(want) == 0
}

func fmtVals(vs []*big.Int, w int) string {
	s := ""
	for _, v := range vs {
		s += fmt.Sprintf("%x ", refir.ToLE(v, w))
	}
	return s
}

func clip(s string) string {
	if len(s) > 600 {
		return s[:600] + "..."
	}
	return s
}

func fmtConsts(cs []expr.Expr) string {
	var b []byte
	for _, c := range cs {
		b = append(b, byte(c.Width()))
		b = append(b, c.(expr.Const).Bytes()...)
	}
	return string(b)
}

func main() {
	req := []string{}
	for _, g := range gadgets {
		req = append(req, "gadget_"+g.name)
	}
	mon.Main(mon.Spec{
		Prop:        "C11",
		Rule:        "case = (gadget, width, auxiliary bit index/shift/count, operand values of the gadget's width drawn from {0,1,-1,MIN,MIN+1,MAX,small signed,random patterns} in all sign combinations, sometimes equal operands); widths from the boundary set (quick) plus uniform 1..255 (thorough), SignedMul <= 127; every case counts as non-trivial and is distinct by its full description",
		Explanation: "oracle: the documented function computed with math/big signed arithmetic (signed remainder by the test suite's convention: |a| mod |b| negated iff exactly one operand is negative; IntNegative only zero/non-zero); two observed paths per case: ConstFold of the gadget over constants, and refir evaluation of the gadget over symbolic register operands",
		Assumptions: []string{"math/big", "refir evaluator", "operands have the gadget's width (documented domain)"},
		Cases: func(t string) int {
			if t == "thorough" {
				return len(gadgets) * 30000
			}
			return len(gadgets) * 1200
		},
		Floor: func(t string) int {
			if t == "thorough" {
				return 2000000
			}
			return 300000
		},
		RequiredCounts: req,
		Run:            run,
	})
}
