// C19 – opcode matching is unambiguous and exact.
package main

import (
	"fmt"
	"math/rand"
	"strings"

	"mltwist/internal/opcode"
	"mltwist/verifh/mon"
)

type pat struct {
	name        string
	bytes, mask []byte
}

func (p pat) Opcode() opcode.Opcode { return opcode.Opcode{Bytes: p.bytes, Mask: p.mask} }
func (p pat) Name() string          { return p.name }
func (p pat) String() string        { return fmt.Sprintf("%s{%x/%x}", p.name, p.bytes, p.mask) }

func wellFormed(p pat) bool {
	return len(p.bytes) > 0 && len(p.bytes) == len(p.mask) && p.mask[len(p.mask)-1] != 0
}

// matches: the string's prefix agrees with the pattern on the masked bits.
func matches(p pat, s []byte) bool {
	if len(s) < len(p.bytes) {
		return false
	}
	for i := range p.bytes {
		if (s[i]^p.bytes[i])&p.mask[i] != 0 {
			return false
		}
	}
	return true
}

// conflict: some byte string matches both patterns.
func conflict(a, b pat) bool {
	n := len(a.bytes)
	if len(b.bytes) < n {
		n = len(b.bytes)
	}
	for i := 0; i < n; i++ {
		if (a.bytes[i]^b.bytes[i])&a.mask[i]&b.mask[i] != 0 {
			return false
		}
	}
	return true
}

func partialOverlap(a, b pat) bool {
	n := len(a.mask)
	if len(b.mask) < n {
		n = len(b.mask)
	}
	ab, ba := false, false // bits in a's mask not in b's, and vice versa
	for i := 0; i < n; i++ {
		if a.mask[i]&^b.mask[i] != 0 {
			ab = true
		}
		if b.mask[i]&^a.mask[i] != 0 {
			ba = true
		}
	}
	return ab && ba
}

func descSet(ps []pat) string {
	ss := make([]string, len(ps))
	for i, p := range ps {
		ss[i] = p.String()
	}
	return strings.Join(ss, " ")
}

// checkSet runs NewMatcher on the set and probes it with the strings.
func checkSet(c *mon.Case, ps []pat, probes [][]byte, exhaustive1 bool) {
	wf := true
	for _, p := range ps {
		if !wellFormed(p) {
			wf = false
		}
	}
	conf := false
	var ca, cb pat
	if wf {
		for i := range ps {
			for j := i + 1; j < len(ps); j++ {
				if conflict(ps[i], ps[j]) {
					conf, ca, cb = true, ps[i], ps[j]
				}
			}
		}
	}
	// the matcher must not keep or mutate the caller's slice
	in := append([]pat(nil), ps...)
	var m *opcode.Matcher[pat]
	var err error
	pn, val, stack := mon.Try(func() { m, err = opcode.NewMatcher(in) })
	c.Eval(1)
	if pn {
		c.Fail("C19.new.panic", map[string]string{"site": mon.PanicSite(stack)}, "NewMatcher(%s) panicked: %v\n%s", descSet(ps), val, stack)
		return
	}
	for i := range in {
		if in[i].String() != ps[i].String() {
			c.Fail("C19.new.input-changed", nil, "NewMatcher reordered or changed its input %s", descSet(ps))
			return
		}
	}
	nt := false
	for i := range ps {
		for j := i + 1; j < len(ps); j++ {
			if wellFormed(ps[i]) && wellFormed(ps[j]) && partialOverlap(ps[i], ps[j]) {
				nt = true
			}
		}
	}
	if nt {
		c.Nontrivial(descSet(ps))
	}
	want := wf && !conf
	if (err == nil) != want {
		switch {
		case !wf:
			c.Fail("C19.new.accepts-ill-formed", nil, "NewMatcher accepted an ill-formed pattern in %s", descSet(ps))
		case conf:
			f := map[string]string{"masks": "nested-or-equal"}
			if partialOverlap(ca, cb) {
				f["masks"] = "partially-overlapping"
			}
			c.Fail("C19.new.accepts-ambiguous", f, "NewMatcher accepted %s although %s and %s both match some byte string", descSet(ps), ca, cb)
		default:
			c.Fail("C19.new.rejects-unambiguous", nil, "NewMatcher rejected the well-formed, conflict-free set %s: %v", descSet(ps), err)
		}
		return
	}
	if err != nil {
		c.Count("sets_rejected", 1)
		return
	}
	c.Count("sets_accepted", 1)
	accepted++
	probe := func(s []byte) bool {
		var got pat
		var ok bool
		pn, val, stack := mon.Try(func() { got, ok = m.Match(s) })
		c.Eval(1)
		if pn {
			c.Fail("C19.match.panic", map[string]string{"site": mon.PanicSite(stack)}, "Match(%x) panicked on %s: %v\n%s", s, descSet(ps), val, stack)
			return false
		}
		var want *pat
		for i := range ps {
			if matches(ps[i], s) {
				want = &ps[i]
			}
		}
		switch {
		case want == nil && ok:
			c.Fail("C19.match.spurious", nil, "Match(%x) = %s but no pattern of %s matches", s, got, descSet(ps))
			return false
		case want != nil && !ok:
			c.Fail("C19.match.missed", nil, "Match(%x) found nothing, %s of %s matches", s, *want, descSet(ps))
			return false
		case want != nil && got.name != want.name:
			c.Fail("C19.match.wrong", nil, "Match(%x) = %s, the matching pattern of %s is %s", s, got, descSet(ps), *want)
			return false
		}
		return true
	}
	if exhaustive1 {
		for b := 0; b < 256; b++ {
			if !probe([]byte{byte(b)}) {
				return
			}
		}
		probe(nil)
		return
	}
	for _, s := range probes {
		if !probe(s) {
			return
		}
	}
}

// low3 enumerates the 56 one-byte patterns with mask (1..7) and bits (0..7).
var low3 = func() []pat {
	var out []pat
	for m := 1; m < 8; m++ {
		for b := 0; b < 8; b++ {
			out = append(out, pat{fmt.Sprintf("m%db%d", m, b), []byte{byte(b)}, []byte{byte(m)}})
		}
	}
	return out
}()

func randPat(r *rand.Rand, i int, ill bool) pat {
	n := 1 + r.Intn(4)
	p := pat{name: fmt.Sprintf("p%d", i), bytes: make([]byte, n), mask: make([]byte, n)}
	for k := 0; k < n; k++ {
		p.bytes[k] = byte(r.Intn(256))
		switch r.Intn(5) {
		case 0:
			p.mask[k] = 0xff
		case 1:
			p.mask[k] = 0x0f
		case 2:
			p.mask[k] = 0xf0
		case 3:
			p.mask[k] = byte(r.Intn(256))
		default:
			p.mask[k] = []byte{0x7f, 0x70, 0x07, 0x3c, 0, 0x81}[r.Intn(6)]
		}
		if r.Intn(2) == 0 {
			p.bytes[k] &= 0x33 // few distinct values => collisions
		}
	}
	if p.mask[n-1] == 0 {
		p.mask[n-1] = 0x10
	}
	if ill {
		switch r.Intn(3) {
		case 0:
			p.bytes, p.mask = nil, nil
		case 1:
			p.mask = p.mask[:n-1]
		default:
			p.mask[n-1] = 0
		}
	}
	return p
}

const nPairs = 56 * 56

var accepted int

func run(c *mon.Case) {
	r := c.Rng
	idx := c.Idx
	switch {
	case idx < 56:
		// exhaustive: all ordered sets of size <= 2 with this first element, all one-byte strings
		a := low3[idx]
		checkSet(c, []pat{a}, nil, true)
		for _, b := range low3 {
			bb := b
			bb.name += "'"
			checkSet(c, []pat{a, bb}, nil, true)
		}
		c.Count("exhaustive_sets_upto2", 57)
	case idx < 56+nPairs && !c.Quick():
		// thorough: all ordered triples with this ordered pair as prefix
		k := idx - 56
		a, b := low3[k/56], low3[k%56]
		b.name += "'"
		for _, t := range low3 {
			tt := t
			tt.name += "''"
			checkSet(c, []pat{a, b, tt}, nil, true)
		}
		c.Count("exhaustive_triples", 56)
	case idx < 56+nPairs:
		// quick: a sample of triples
		k := idx - 56
		a, b := low3[k/56], low3[k%56]
		b.name += "'"
		for j := 0; j < 3; j++ {
			tt := low3[r.Intn(56)]
			tt.name += "''"
			checkSet(c, []pat{a, b, tt}, nil, true)
		}
		c.Count("sampled_triples", 3)
	default:
		n := 2 + r.Intn(11)
		if r.Intn(2) == 0 {
			n = 2 + r.Intn(3) // small sets are accepted more often
		}
		ill := r.Intn(10) == 0
		ps := make([]pat, n)
		for i := range ps {
			ps[i] = randPat(r, i, ill && i == n/2)
			if i > 0 && r.Intn(4) == 0 { // derive from an earlier pattern: nested / partially overlapping mask
				q := ps[r.Intn(i)]
				if len(q.bytes) > 0 && len(q.bytes) == len(q.mask) {
					p := pat{name: fmt.Sprintf("p%d", i), bytes: append([]byte(nil), q.bytes...), mask: append([]byte(nil), q.mask...)}
					k := r.Intn(len(p.mask))
					switch r.Intn(3) {
					case 0:
						p.mask[k] = p.mask[k]&0x3c | 0x03 // drop some bits, add others
					case 1:
						p.mask[k] |= byte(1 << uint(r.Intn(8)))
					default:
						p.bytes[k] ^= byte(1 << uint(r.Intn(8)))
					}
					if p.mask[len(p.mask)-1] == 0 {
						p.mask[len(p.mask)-1] = 1
					}
					ps[i] = p
				}
			}
		}
		var probes [][]byte
		for i := 0; i < 120; i++ {
			var s []byte
			q := ps[r.Intn(n)]
			switch r.Intn(4) {
			case 0:
				s = make([]byte, r.Intn(6))
				r.Read(s)
			default:
				s = append([]byte(nil), q.bytes...)
				for k := range s {
					if k < len(q.mask) {
						s[k] = s[k]&q.mask[k] | byte(r.Intn(256))&^q.mask[k]
					}
				}
				switch r.Intn(4) {
				case 0:
					if len(s) > 0 {
						s = s[:len(s)-1] // too short
					}
				case 1:
					ext := make([]byte, 1+r.Intn(3))
					r.Read(ext)
					s = append(s, ext...)
				case 2:
					if len(s) > 0 {
						s[r.Intn(len(s))] ^= byte(1 << uint(r.Intn(8)))
					}
				}
			}
			probes = append(probes, s)
		}
		before := c.Failed()
		acc0 := accepted
		checkSet(c, ps, probes, false)
		_ = before
		if accepted > acc0 {
			c.Count("random_sets_accepted", 1)
		}
		c.Count("random_sets", 1)
		if c.WantSample() && n <= 4 {
			c.Sample(descSet(ps))
		}
	}
}

func main() {
	mon.Main(mon.Spec{
		Prop:        "C19",
		Rule:        "case = (pattern set, probe strings): exhaustive over all ordered sets of <=2 (quick; thorough: <=3) one-byte patterns with mask and bits in the 3 low bits probed with all 256 one-byte strings and the empty string; random sets of 2..12 patterns of length 1..4 with disjoint, nested and partially overlapping masks, bits outside the mask, derived near-duplicates and ill-formed members, probed with 120 strings derived from the patterns (free bits randomised, truncated, extended, one bit flipped) or random; non-trivial = set containing two well-formed patterns with partially overlapping masks, distinct by set",
		Explanation: "oracle: documented well-formedness; two patterns conflict iff they agree on the AND of their masks over the shorter length; NewMatcher must succeed iff all well formed and conflict free; Match must return the unique pattern matching the string's prefix (patterns longer than the string never match) or nothing",
		Assumptions: []string{"own bitwise reference of matching/conflict"},
		Cases: func(t string) int {
			if t == "thorough" {
				return 56 + nPairs + 3000000
			}
			return 56 + nPairs + 80000
		},
		Floor: func(t string) int {
			if t == "thorough" {
				return 200000
			}
			return 15000
		},
		Exhaustive:     func(string) bool { return true },
		RequiredCounts: []string{"sets_accepted", "sets_rejected", "random_sets", "random_sets_accepted", "exhaustive_sets_upto2"},
		Run:            run,
	})
}
