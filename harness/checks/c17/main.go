// C17 – interval sets obey set algebra. Oracle: bitset over a small window.
package main

import (
	"fmt"
	"math"
	"strings"

	"golang.org/x/exp/constraints"

	"mltwist/internal/state/interval"
	"mltwist/verifh/mon"
)

const exhQuickU, exhThoroughU = 10, 12

// number of exhaustive chunk cases: each case handles all b for a block of a's.
func exhChunks(u int) int { return 1 << uint(u) / 16 }

func cases(tier string) int {
	if tier == "thorough" {
		return exhChunks(exhThoroughU) + 343 + 60000
	}
	return exhChunks(exhQuickU) + 343 + 4000
}

// runs converts a bitset into canonical intervals relative to base.
func runs[T constraints.Integer](mask uint64, n int, base T) []interval.Interval[T] {
	var out []interval.Interval[T]
	i := 0
	for i < n {
		if mask>>uint(i)&1 == 0 {
			i++
			continue
		}
		j := i
		for j < n && mask>>uint(j)&1 == 1 {
			j++
		}
		out = append(out, interval.New(base+T(i), base+T(j)))
		i = j
	}
	return out
}

func fmtIntvs[T constraints.Integer](is []interval.Interval[T]) string {
	var sb strings.Builder
	for _, i := range is {
		fmt.Fprintf(&sb, "[%d,%d)", i.Begin(), i.End())
	}
	if sb.Len() == 0 {
		return "∅"
	}
	return sb.String()
}

// verify checks that m is canonical and denotes exactly want (bitset over
// [base, base+n)).
func verify[T constraints.Integer](m interval.Map[T], want uint64, n int, base T) string {
	is := m.Intervals()
	if m.Len() != len(is) {
		return fmt.Sprintf("Len()=%d but %d intervals", m.Len(), len(is))
	}
	var got uint64
	for k, iv := range is {
		if !(iv.Begin() < iv.End()) {
			return fmt.Sprintf("empty or inverted interval [%d,%d)", iv.Begin(), iv.End())
		}
		if k > 0 && !(is[k-1].End() < iv.Begin()) {
			return fmt.Sprintf("intervals not sorted/disjoint/non-adjacent: %s", fmtIntvs(is))
		}
		if iv.Begin() < base || iv.End()-base > T(n) {
			return fmt.Sprintf("interval [%d,%d) outside the universe", iv.Begin(), iv.End())
		}
		for p := iv.Begin(); p < iv.End(); p++ {
			got |= 1 << uint(p-base)
		}
		if m.Index(k) != iv {
			return "Index(k) differs from Intervals()[k]"
		}
	}
	if got != want {
		return fmt.Sprintf("denotes %s, want %s", fmtIntvs(runs(got, n, base)), fmtIntvs(runs(want, n, base)))
	}
	return ""
}

type opDef struct {
	name string
	ref  func(a, b uint64) uint64
}

var ops = []opDef{
	{"union", func(a, b uint64) uint64 { return a | b }},
	{"complement", func(a, b uint64) uint64 { return a &^ b }},
	{"intersect", func(a, b uint64) uint64 { return a & b }},
}

func apply[T constraints.Integer](op string, a, b interval.Map[T]) interval.Map[T] {
	switch op {
	case "union":
		return interval.MapUnion(a, b)
	case "complement":
		return interval.MapComplement(a, b)
	default:
		return interval.MapIntersect(a, b)
	}
}

func popRuns(m uint64, n int) int {
	c := 0
	for i := 0; i < n; i++ {
		if m>>uint(i)&1 == 1 && (i == 0 || m>>uint(i-1)&1 == 0) {
			c++
		}
	}
	return c
}

func checkPair[T constraints.Integer](c *mon.Case, am, bm uint64, n int, base T, tname string) {
	ai, bi := runs(am, n, base), runs(bm, n, base)
	for _, op := range ops {
		// fresh maps per operation: operations must not depend on earlier ones
		a := interval.NewMap(append([]interval.Interval[T](nil), ai...)...)
		b := interval.NewMap(append([]interval.Interval[T](nil), bi...)...)
		want := op.ref(am, bm)
		var res interval.Map[T]
		p, val, stack := mon.Try(func() { res = apply(op.name, a, b) })
		c.Eval(1)
		feat := map[string]string{"op": op.name}
		if p {
			c.Fail("C17.op.panic", feat, "%s(%s, %s) over %s panicked: %v\n%s", op.name, fmtIntvs(ai), fmtIntvs(bi), tname, val, stack)
			continue
		}
		if msg := verify(res, want, n, base); msg != "" {
			c.Fail("C17.op.result", feat, "%s(%s, %s) over %s = %s: %s", op.name, fmtIntvs(ai), fmtIntvs(bi), tname, fmtIntvs(res.Intervals()), msg)
			continue
		}
		// operands must be unchanged
		if verify(a, am, n, base) != "" || verify(b, bm, n, base) != "" {
			c.Fail("C17.op.operand-mutated", feat, "%s(%s, %s) over %s changed an operand: a=%s b=%s", op.name, fmtIntvs(ai), fmtIntvs(bi), tname, fmtIntvs(a.Intervals()), fmtIntvs(b.Intervals()))
		}
		if popRuns(want, n) >= 2 || am == 0 || bm == 0 || spans(am, bm, n) {
			c.NontrivialHash(uint64(len(op.name))<<60 ^ am<<24 ^ bm ^ uint64(n)<<52 ^ hashStr(tname))
		}
	}
}

func hashStr(s string) uint64 {
	var h uint64 = 1469598103934665603
	for i := 0; i < len(s); i++ {
		h = (h ^ uint64(s[i])) * 1099511628211
	}
	return h << 32
}

// spans reports whether one run of one operand touches two runs of the other.
func spans(a, b uint64, n int) bool {
	f := func(x, y uint64) bool {
		for _, r := range runs[int](x, n, 0) {
			var m uint64
			for p := r.Begin(); p < r.End(); p++ {
				m |= 1 << uint(p)
			}
			if popRuns(y&m, n) >= 2 {
				return true
			}
		}
		return false
	}
	return f(a, b) || f(b, a)
}

// checkNewMap feeds an arbitrary list of non-empty intervals.
func checkNewMap[T constraints.Integer](c *mon.Case, list [][2]int, n int, base T, tname string) {
	in := make([]interval.Interval[T], len(list))
	var want uint64
	for k, l := range list {
		in[k] = interval.New(base+T(l[0]), base+T(l[1]))
		for p := l[0]; p < l[1]; p++ {
			want |= 1 << uint(p)
		}
	}
	desc := fmtIntvs(in)
	var res interval.Map[T]
	p, val, stack := mon.Try(func() { res = interval.NewMap(in...) })
	c.Eval(1)
	if p {
		c.Fail("C17.newmap.panic", nil, "NewMap(%s) over %s panicked: %v\n%s", desc, tname, val, stack)
		return
	}
	if msg := verify(res, want, n, base); msg != "" {
		c.Fail("C17.newmap.result", nil, "NewMap(%s) over %s = %s: %s", desc, tname, fmtIntvs(res.Intervals()), msg)
	}
	if len(list) >= 2 {
		c.Nontrivial("newmap" + tname + desc)
	}
}

func randList(c *mon.Case, n int) [][2]int {
	k := c.Rng.Intn(9)
	out := make([][2]int, 0, k)
	for i := 0; i < k; i++ {
		var b, e int
		switch c.Rng.Intn(4) {
		case 0: // duplicate / nested / adjacent to an earlier one
			if len(out) > 0 {
				o := out[c.Rng.Intn(len(out))]
				switch c.Rng.Intn(4) {
				case 0:
					b, e = o[0], o[1]
				case 1:
					b, e = o[1], o[1]+1+c.Rng.Intn(3)
				case 2:
					b, e = o[0], o[0]+1
				default:
					b, e = o[0]-1-c.Rng.Intn(2), o[0]
				}
				break
			}
			fallthrough
		default:
			b = c.Rng.Intn(n)
			e = b + 1 + c.Rng.Intn(5)
		}
		if b < 0 {
			b = 0
		}
		if e > n {
			e = n
		}
		if b >= e {
			continue
		}
		out = append(out, [2]int{b, e})
	}
	return out
}

func maskOf(list [][2]int) uint64 {
	var m uint64
	for _, l := range list {
		for p := l[0]; p < l[1]; p++ {
			m |= 1 << uint(p)
		}
	}
	return m
}

func randomCase[T constraints.Integer](c *mon.Case, base T, tname string) {
	const n = 24
	la, lb := randList(c, n), randList(c, n)
	checkNewMap(c, la, n, base, tname)
	checkNewMap(c, lb, n, base, tname)
	checkPair(c, maskOf(la), maskOf(lb), n, base, tname)
	// chained operations: result of one op as operand of the next
	am, bm := maskOf(la), maskOf(lb)
	a := interval.NewMap(runs(am, n, base)...)
	b := interval.NewMap(runs(bm, n, base)...)
	cur, curm := a, am
	var hist []string
	for step := 0; step < 4; step++ {
		op := ops[c.Rng.Intn(3)]
		other, om := b, bm
		if c.Rng.Intn(2) == 0 {
			l := randList(c, n)
			om = maskOf(l)
			other = interval.NewMap(runs(om, n, base)...)
		}
		hist = append(hist, fmt.Sprintf("%s %s", op.name, fmtIntvs(runs(om, n, base))))
		var res interval.Map[T]
		p, val, stack := mon.Try(func() { res = apply(op.name, cur, other) })
		c.Eval(1)
		want := op.ref(curm, om)
		if p {
			c.Fail("C17.op.panic", map[string]string{"op": op.name}, "chain from %s: %v panicked: %v\n%s", fmtIntvs(runs(am, n, base)), hist, val, stack)
			return
		}
		if msg := verify(res, want, n, base); msg != "" {
			c.Fail("C17.op.result", map[string]string{"op": op.name}, "chain from %s over %s: %v: %s", fmtIntvs(runs(am, n, base)), tname, hist, msg)
			return
		}
		cur, curm = res, want
	}
}

// poolHistory keeps every map it ever built or got back and uses them again as
// operands: an operation must neither change its operands nor any earlier result
// (results sharing storage with operands would be overwritten by later operations).
func poolHistory[T constraints.Integer](c *mon.Case, base T, tname string) {
	const n = 24
	type ent struct {
		m    interval.Map[T]
		mask uint64
		how  string
	}
	var pool []ent
	for i := 0; i < 3; i++ {
		l := randList(c, n) // possibly overlapping lists: NewMap merges, leaving spare capacity
		var is []interval.Interval[T]
		for _, x := range l {
			is = append(is, interval.New(base+T(x[0]), base+T(x[1])))
		}
		var m interval.Map[T]
		if p, _, _ := mon.Try(func() { m = interval.NewMap(is...) }); p {
			return // reported by checkNewMap
		}
		pool = append(pool, ent{m, maskOf(l), fmt.Sprintf("NewMap%v", l)})
	}
	var hist []string
	for step := 0; step < 24; step++ {
		op := ops[c.Rng.Intn(3)]
		i, j := c.Rng.Intn(len(pool)), c.Rng.Intn(len(pool))
		if c.Rng.Intn(3) == 0 { // a small fresh operand placed before/behind/inside
			b := c.Rng.Intn(n - 1)
			e := b + 1 + c.Rng.Intn(minInt(3, n-b-1)+1)
			if e > n {
				e = n
			}
			pool = append(pool, ent{interval.NewMap(interval.New(base+T(b), base+T(e))), maskOf([][2]int{{b, e}}), fmt.Sprintf("[%d,%d)", b, e)})
			j = len(pool) - 1
		}
		hist = append(hist, fmt.Sprintf("#%d=%s(#%d,#%d)", len(pool), op.name, i, j))
		var res interval.Map[T]
		p, val, stack := mon.Try(func() { res = apply(op.name, pool[i].m, pool[j].m) })
		c.Eval(1)
		feat := map[string]string{"op": op.name, "when": "pool-history"}
		if p {
			c.Fail("C17.op.panic", feat, "%s over %s: %v panicked: %v\n%s", tname, tname, hist, val, stack)
			return
		}
		want := op.ref(pool[i].mask, pool[j].mask)
		if msg := verify(res, want, n, base); msg != "" {
			c.Fail("C17.op.result", feat, "pool history over %s %v: result %s: %s", tname, hist, fmtIntvs(res.Intervals()), msg)
			return
		}
		pool = append(pool, ent{res, want, hist[len(hist)-1]})
		for k, e := range pool {
			if msg := verify(e.m, e.mask, n, base); msg != "" {
				c.Fail("C17.op.earlier-map-changed", map[string]string{"op": op.name}, "pool history over %s %v: map #%d (%s) no longer denotes its set after the last operation: now %s: %s", tname, hist, k, e.how, fmtIntvs(e.m.Intervals()), msg)
				return
			}
		}
		if len(pool) > 14 {
			pool = pool[len(pool)-14:]
		}
	}
	c.Count("pool_history_ops", 24)
}

// ---- split universe: 12 points at lo.. and 12 points at hi.., the two halves so far
// apart that differences of their values overflow the signed range of the type (sorting
// or comparing by subtraction goes wrong exactly there)
type split[T constraints.Integer] struct{ lo, hi T }

func (u split[T]) val(i int) T {
	if i < 12 {
		return u.lo + T(i)
	}
	return u.hi + T(i-12)
}

func (u split[T]) intervals(list [][2]int) []interval.Interval[T] {
	var out []interval.Interval[T]
	for _, l := range list {
		out = append(out, interval.New(u.val(l[0]), u.val(l[1]-1)+1))
	}
	return out
}

// clipHalf cuts list entries at the border between the halves.
func clipHalf(list [][2]int) [][2]int {
	var out [][2]int
	for _, l := range list {
		if l[0] < 12 && l[1] > 12 {
			out = append(out, [2]int{l[0], 12}, [2]int{12, l[1]})
		} else {
			out = append(out, l)
		}
	}
	return out
}

func (u split[T]) verify(m interval.Map[T], want uint64) string {
	is := m.Intervals()
	var got uint64
	for k, iv := range is {
		if !(iv.Begin() < iv.End()) {
			return fmt.Sprintf("empty or inverted interval [%d,%d)", iv.Begin(), iv.End())
		}
		if k > 0 && !(is[k-1].End() < iv.Begin()) {
			return fmt.Sprintf("intervals not sorted/disjoint/non-adjacent: %s", fmtIntvs(is))
		}
		var off int
		switch {
		case iv.Begin() >= u.lo && iv.End() <= u.lo+12 && iv.End() > u.lo:
			off = int(iv.Begin() - u.lo)
		case iv.Begin() >= u.hi && iv.End() <= u.hi+12 && iv.End() > u.hi:
			off = 12 + int(iv.Begin()-u.hi)
		default:
			return fmt.Sprintf("interval [%d,%d) outside the universe", iv.Begin(), iv.End())
		}
		for i := 0; i < int(iv.End()-iv.Begin()); i++ {
			got |= 1 << uint(off+i)
		}
	}
	// the end of the low half and the begin of the high half are not adjacent values
	if got != want {
		return fmt.Sprintf("denotes bitset %#x of the 24 universe points, want %#x: %s", got, want, fmtIntvs(is))
	}
	return ""
}

func splitCase[T constraints.Integer](c *mon.Case, lo, hi T, tname string) {
	u := split[T]{lo, hi}
	type ent struct {
		m    interval.Map[T]
		mask uint64
	}
	var pool []ent
	for i := 0; i < 3; i++ {
		l := clipHalf(randList(c, 24))
		c.Rng.Shuffle(len(l), func(a, b int) { l[a], l[b] = l[b], l[a] })
		var m interval.Map[T]
		p, val, stack := mon.Try(func() { m = interval.NewMap(u.intervals(l)...) })
		c.Eval(1)
		if p {
			c.Fail("C17.newmap.panic", map[string]string{"universe": "far-apart"}, "NewMap(%s) over %s panicked: %v\n%s", fmtIntvs(u.intervals(l)), tname, val, stack)
			return
		}
		if msg := u.verify(m, maskOf(l)); msg != "" {
			c.Fail("C17.newmap.result", map[string]string{"universe": "far-apart"}, "NewMap(%s) over %s = %s: %s", fmtIntvs(u.intervals(l)), tname, fmtIntvs(m.Intervals()), msg)
			return
		}
		pool = append(pool, ent{m, maskOf(l)})
	}
	for step := 0; step < 8; step++ {
		op := ops[c.Rng.Intn(3)]
		a, b := pool[c.Rng.Intn(len(pool))], pool[c.Rng.Intn(len(pool))]
		var res interval.Map[T]
		p, val, stack := mon.Try(func() { res = apply(op.name, a.m, b.m) })
		c.Eval(1)
		feat := map[string]string{"op": op.name, "universe": "far-apart"}
		if p {
			c.Fail("C17.op.panic", feat, "%s(%s, %s) over %s panicked: %v\n%s", op.name, fmtIntvs(a.m.Intervals()), fmtIntvs(b.m.Intervals()), tname, val, stack)
			return
		}
		want := op.ref(a.mask, b.mask)
		if msg := u.verify(res, want); msg != "" {
			c.Fail("C17.op.result", feat, "%s(%s, %s) over %s = %s: %s", op.name, fmtIntvs(a.m.Intervals()), fmtIntvs(b.m.Intervals()), tname, fmtIntvs(res.Intervals()), msg)
			return
		}
		pool = append(pool, ent{res, want})
	}
	c.Count("far_apart_universe_cases", 1)
}

func minInt(a, b int) int {
	if a < b {
		return a
	}
	return b
}

func run(c *mon.Case) {
	u := exhQuickU
	if !c.Quick() {
		u = exhThoroughU
	}
	ec := exhChunks(u)
	idx := c.Idx
	switch {
	case idx < ec:
		// exhaustive: 16 values of a per case, all b
		for a := uint64(idx * 16); a < uint64(idx*16+16); a++ {
			for b := uint64(0); b < 1<<uint(u); b++ {
				checkPair[uint64](c, a, b, u, 100, "uint64")
			}
		}
		c.Count("exhaustive_pairs", 16<<uint(u))
		if c.WantSample() {
			c.Sample(fmt.Sprintf("all pairs (a,b) of subsets of a %d-point universe with a in [%d,%d): union/complement/intersect", u, idx*16, idx*16+16))
		}
	case idx < ec+343:
		// every list of <= 3 intervals over 7 points: the first interval is fixed by
		// the case index, the other two enumerated
		var all [][2]int
		for b := 0; b < 7; b++ {
			for e := b + 1; e <= 7; e++ {
				all = append(all, [2]int{b, e})
			}
		}
		// 28 intervals; lists of length 0..3 = 1+28+784+21952; split by idx over 343 cases
		k := idx - ec
		cnt := 0
		emit := func(l [][2]int) {
			if cnt%343 == k {
				checkNewMap[int16](c, l, 7, -3, "int16")
			}
			cnt++
		}
		emit(nil)
		for _, x := range all {
			emit([][2]int{x})
			for _, y := range all {
				emit([][2]int{x, y})
				for _, z := range all {
					emit([][2]int{x, y, z})
				}
			}
		}
		c.Count("newmap_enumerated_lists", 1)
	default:
		switch c.Rng.Intn(6) {
		case 0:
			randomCase[uint8](c, 0, "uint8@0")
			poolHistory[uint8](c, 0, "uint8@0")
		case 1:
			randomCase[uint8](c, math.MaxUint8-24, "uint8@max")
		case 2:
			randomCase[int16](c, math.MinInt16, "int16@min")
		case 3:
			randomCase[int16](c, -12, "int16@-12")
			poolHistory[int16](c, -12, "int16@-12")
		case 4:
			randomCase[uint64](c, math.MaxUint64-24, "uint64@max")
		default:
			randomCase[uint64](c, 1<<63-12, "uint64@2^63")
			poolHistory[uint64](c, 1<<63-12, "uint64@2^63")
		}
		switch c.Rng.Intn(5) {
		case 0:
			splitCase[uint64](c, 0x1000, 0xffffffff80000000, "uint64 low/high half")
		case 1:
			splitCase[uint64](c, 0, math.MaxUint64-12, "uint64 0/max")
		case 2:
			splitCase[int64](c, math.MinInt64, math.MaxInt64-12, "int64 min/max")
		case 3:
			splitCase[int16](c, math.MinInt16, math.MaxInt16-12, "int16 min/max")
		default:
			splitCase[uint8](c, 0, 200, "uint8 0/200")
		}
		// many intervals per set: a 64-point universe with random bit densities (up to 32
		// intervals per operand; counts of intervals lying in front of another one vary)
		for k := 0; k < 6; k++ {
			am, bm := c.Rng.Uint64(), c.Rng.Uint64()
			switch c.Rng.Intn(5) {
			case 0:
				am = 0x5555555555555555 << uint(c.Rng.Intn(2)) // 32 unit intervals
			case 1:
				bm &= c.Rng.Uint64() // sparser
			case 2:
				// one long interval of a behind k unit intervals of b
				kk := 1 + c.Rng.Intn(30)
				bm = 0
				for i := 0; i < kk; i++ {
					bm |= 1 << uint(2*i)
				}
				am = ^uint64(0) << uint(2*kk+c.Rng.Intn(3))
				bm |= c.Rng.Uint64() & am
			case 3:
				am |= c.Rng.Uint64()
			}
			if c.Rng.Intn(2) == 0 {
				am, bm = bm, am
			}
			checkPair[uint64](c, am, bm, 64, 1<<40, "uint64 64-point universe")
			c.Count("dense_universe_pairs", 1)
		}
		c.Count("random_histories", 1)
		if c.WantSample() {
			c.Sample(fmt.Sprintf("random case %d: two lists of <=8 possibly overlapping intervals through NewMap, 3 ops, and a 4-step chain", c.Idx))
		}
	}
}

func main() {
	mon.Main(mon.Spec{
		Prop:        "C17",
		Rule:        "case = (operation, operand sets); exhaustive over all pairs of subsets of a small universe in canonical form, all lists of <=3 intervals over 7 points through NewMap, plus random interval lists with duplicates/nesting/adjacency at the extremes of uint8/int16/uint64, over a 64-point universe with up to 32 intervals per operand, and over a split universe whose two halves lie at opposite ends of the type's range (uint64 low/high half, int64 min/max, ...); non-trivial = result has >=2 intervals, or an operand is empty, or one interval spans two of the other operand",
		Explanation: "oracle: bitset over the universe; every result must be sorted, disjoint, non-adjacent, non-empty and denote exactly the reference set; operands must be unchanged; in the pool histories (24 operations whose operands are earlier operands and results) every map built or returned so far must still denote its set after each operation; panics are violations. exhaustive=true refers to the pair enumeration over the 10-point (quick) / 12-point (thorough) universe and the NewMap list enumeration.",
		Assumptions: []string{"bitset reference over a <=24 point window", "interval.New with begin<end is the only way inputs are built"},
		Cases:       cases,
		Floor: func(t string) int {
			if t == "thorough" {
				return 4000000
			}
			return 200000
		},
		Exhaustive:     func(string) bool { return true },
		RequiredCounts: []string{"dense_universe_pairs", "far_apart_universe_cases", "pool_history_ops", "random_histories", "exhaustive_pairs"},
		Run:            run,
	})
}
