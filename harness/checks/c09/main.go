// C09 – constant folding preserves meaning. Oracle: refir big-int evaluation.
package main

import (
	"mltwist/internal/exprtransform"
	"mltwist/pkg/expr"
	"mltwist/verifh/gen"
	"mltwist/verifh/mon"
	"mltwist/verifh/refir"
)

func clip(s string) string {
	if len(s) > 1500 {
		return s[:1500] + "..."
	}
	return s
}

func isConst(e expr.Expr) bool { _, ok := e.(expr.Const); return ok }

// foldable finds an operation whose operands are all constants.
func foldable(e expr.Expr) expr.Expr {
	var found expr.Expr
	refir.Has(e, func(x expr.Expr) bool {
		switch y := x.(type) {
		case expr.Binary:
			if isConst(y.Arg1()) && isConst(y.Arg2()) {
				found = x
				return true
			}
		case expr.Less:
			if isConst(y.Arg1()) && isConst(y.Arg2()) && isConst(y.ExprTrue()) && isConst(y.ExprFalse()) {
				found = x
				return true
			}
		}
		return false
	})
	return found
}

func run(c *mon.Case) {
	r := c.Rng
	for sub := 0; sub < 8; sub++ {
		g := gen.NewExprGen(r)
		switch r.Intn(6) {
		case 0:
			g.NoLoads = true // closed terms
		case 1:
			g.Gadgets, g.WidthGadgets = 30, 30
		case 2:
			g.WidthFn = gen.SmallWidth
		}
		e := g.Expr(1 + r.Intn(5))
		one(c, e, g.NoLoads)
	}
}

func one(c *mon.Case, e expr.Expr, closed bool) {
	c.Eval(1)
	src := refir.String(e)
	var f expr.Expr
	p, val, stack := mon.Try(func() { f = exprtransform.ConstFold(e) })
	if p {
		c.Fail("C09.panic", map[string]string{"site": mon.PanicSite(stack)}, "ConstFold(%s) panicked: %v\n%s", clip(src), val, stack)
		return
	}
	if f.Width() != e.Width() {
		c.Fail("C09.width", nil, "ConstFold(%s) = %s: width %d != %d", clip(src), clip(refir.String(f)), f.Width(), e.Width())
		return
	}
	for i, env := range refir.Envs(uint64(c.Idx)*31+uint64(c.Seed), 8) {
		a, b := refir.Eval(e, env), refir.Eval(f, env)
		if a.Cmp(b) != 0 {
			c.Fail("C09.value", nil, "env %d: %s = %x but ConstFold = %s = %x", i, clip(src), a, clip(refir.String(f)), b)
			return
		}
	}
	if refir.Closed(e) {
		c.Count("closed_terms", 1)
		if !isConst(f) {
			c.Fail("C09.closed-not-const", nil, "closed %s folded to non-constant %s", clip(src), clip(refir.String(f)))
			return
		}
	}
	if x := foldable(f); x != nil {
		c.Fail("C09.foldable-remains", nil, "ConstFold(%s) = %s still contains %s", clip(src), clip(refir.String(f)), clip(refir.String(x)))
		return
	}
	var f2 expr.Expr
	p, val, stack = mon.Try(func() { f2 = exprtransform.ConstFold(f) })
	if p {
		c.Fail("C09.panic", map[string]string{"site": mon.PanicSite(stack)}, "ConstFold(ConstFold(%s)) panicked: %v\n%s", clip(src), val, stack)
		return
	}
	if !refir.Equal(f, f2) {
		c.Fail("C09.idempotent", nil, "ConstFold(%s) = %s but folding again gives %s", clip(src), clip(refir.String(f)), clip(refir.String(f2)))
		return
	}
	if refir.String(e) != src {
		c.Fail("C09.input-mutated", nil, "ConstFold changed its input: %s -> %s", clip(src), clip(refir.String(e)))
		return
	}
	if foldable(e) != nil && !refir.Closed(e) {
		c.Nontrivial(src)
	}
	if c.WantSample() && len(src) < 400 {
		c.Sample(map[string]string{"expr": src, "folded": refir.String(f)})
	}
}

func main() {
	mon.Main(mon.Spec{
		Prop:        "C09",
		Rule:        "case = random expression tree (depth<=5, all node kinds, widths boundary-biased 1..255, mixed operand widths, gadget-shaped subtrees, nested conditionals and memory loads); non-trivial = tree with >=1 all-constant operation and >=1 free load, distinct by S-expression",
		Explanation: "oracle: width equality, refir.Eval equality on 10 valuations (8 hashed + all-zero + all-ones), closed terms fold to one Const, no all-constant Binary/Less remains, ConstFold is idempotent (structural), input not mutated",
		Assumptions: []string{"refir reference evaluator (math/big)"},
		Cases: func(t string) int {
			if t == "thorough" {
				return 400000
			}
			return 80000
		},
		Floor: func(t string) int {
			if t == "thorough" {
				return 400000
			}
			return 40000
		},
		RequiredCounts: []string{"closed_terms"},
		Run:            run,
	})
}
