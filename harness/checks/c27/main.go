// C27 – constants encode integers exactly. Oracle: math/big encode/decode.
package main

import (
	"fmt"
	"math/big"
	"math/rand"
	"unsafe"

	"golang.org/x/exp/constraints"

	"mltwist/pkg/expr"
	"mltwist/verifh/gen"
	"mltwist/verifh/mon"
	"mltwist/verifh/refir"
)

var one = big.NewInt(1)

func pow2(n int) *big.Int { return new(big.Int).Lsh(one, uint(n)) }

// candidates around the boundaries of width w and a type of tb bits.
func candidates(r *rand.Rand, w int, tb int, signedT bool) []*big.Int {
	var out []*big.Int
	add := func(v *big.Int) {
		for d := int64(-2); d <= 2; d++ {
			out = append(out, new(big.Int).Add(v, big.NewInt(d)))
		}
	}
	add(new(big.Int))
	add(pow2(8 * w))
	add(pow2(8*w - 1))
	add(pow2(tb))
	add(pow2(tb - 1))
	add(pow2(8))
	add(pow2(7))
	if signedT {
		add(new(big.Int).Neg(pow2(8*w - 1)))
		add(new(big.Int).Neg(pow2(8 * w)))
		add(new(big.Int).Neg(pow2(tb - 1)))
		add(new(big.Int).Neg(pow2(7)))
	}
	for i := 0; i < 6; i++ {
		v := refir.FromLE(gen.ConstBytes(r, 1+r.Intn(tb/8)))
		if signedT && r.Intn(2) == 0 {
			v.Neg(v)
		}
		out = append(out, v)
	}
	return out
}

func nearBoundary(v *big.Int, w, tb int) bool {
	for _, b := range []*big.Int{pow2(8 * w), pow2(8*w - 1), pow2(tb), pow2(tb - 1), new(big.Int).Neg(pow2(8*w - 1)), new(big.Int).Neg(pow2(tb - 1)), new(big.Int)} {
		d := new(big.Int).Sub(v, b)
		if d.Abs(d).Cmp(big.NewInt(2)) <= 0 {
			return true
		}
	}
	return false
}

// encode returns the w-byte two's complement LE encoding of v.
func encode(v *big.Int, w int) []byte {
	return refir.ToLE(new(big.Int).Mod(v, pow2(8*w)), w)
}

func checkUnsigned[T constraints.Unsigned](c *mon.Case, r *rand.Rand, w int, tname string) {
	var z T
	tb := int(unsafe.Sizeof(z)) * 8
	for _, v := range candidates(r, w, tb, false) {
		if v.Sign() < 0 || v.BitLen() > tb {
			continue
		}
		val := T(v.Uint64())
		c.Eval(1)
		wantFail := v.BitLen() > 8*w
		var k expr.Const
		p, pv, _ := mon.Try(func() { k = expr.NewConstUint(val, expr.Width(w)) })
		desc := fmt.Sprintf("NewConstUint[%s](%s, %d)", tname, v.String(), w)
		feat := map[string]string{"ctor": "NewConstUint"}
		if p != wantFail {
			c.Fail("C27.range", feat, "%s: failed=%v (panic %v), want failed=%v", desc, p, pv, wantFail)
			continue
		}
		if nearBoundary(v, w, tb) {
			c.Nontrivial(desc)
		}
		if p {
			c.Count("rejected", 1)
			continue
		}
		c.Count("accepted", 1)
		if string(k.Bytes()) != string(encode(v, w)) || int(k.Width()) != w {
			c.Fail("C27.encoding", feat, "%s = %x (width %d), want %x", desc, k.Bytes(), k.Width(), encode(v, w))
			continue
		}
		// decode into every unsigned type
		decode[uint8](c, k, "uint8")
		decode[uint16](c, k, "uint16")
		decode[uint32](c, k, "uint32")
		decode[uint64](c, k, "uint64")
		decode[uint](c, k, "uint")
		if w == int(unsafe.Sizeof(z)) {
			f := expr.ConstFromUint(val)
			if string(f.Bytes()) != string(k.Bytes()) {
				c.Fail("C27.encoding", map[string]string{"ctor": "ConstFromUint"}, "ConstFromUint[%s](%s) = %x, want %x", tname, v, f.Bytes(), k.Bytes())
			}
		}
		if c.WantSample() {
			c.Sample(map[string]string{"call": desc, "bytes": fmt.Sprintf("%x", k.Bytes())})
		}
	}
}

func decode[T constraints.Unsigned](c *mon.Case, k expr.Const, tname string) {
	var z T
	sz := int(unsafe.Sizeof(z))
	full := refir.FromLE(k.Bytes())
	var got T
	var fits bool
	p, pv, stack := mon.Try(func() { got, fits = expr.ConstUint[T](k) })
	c.Eval(1)
	desc := fmt.Sprintf("ConstUint[%s](%x)", tname, k.Bytes())
	if p {
		c.Fail("C27.decode.panic", nil, "%s panicked: %v\n%s", desc, pv, stack)
		return
	}
	wantFits := full.BitLen() <= 8*sz
	wantLow := new(big.Int).Mod(full, pow2(8*sz)).Uint64()
	if fits != wantFits || uint64(got) != wantLow {
		c.Fail("C27.decode", nil, "%s = (%d, %v), want (%d, %v)", desc, got, fits, wantLow, wantFits)
	}
}

func checkSigned[T constraints.Signed](c *mon.Case, r *rand.Rand, w int, tname string) {
	var z T
	tb := int(unsafe.Sizeof(z)) * 8
	lo, hi := new(big.Int).Neg(pow2(tb-1)), new(big.Int).Sub(pow2(tb-1), one)
	wlo, whi := new(big.Int).Neg(pow2(8*w-1)), new(big.Int).Sub(pow2(8*w-1), one)
	for _, v := range candidates(r, w, tb, true) {
		if v.Cmp(lo) < 0 || v.Cmp(hi) > 0 {
			continue
		}
		val := T(v.Int64())
		c.Eval(1)
		wantFail := v.Cmp(wlo) < 0 || v.Cmp(whi) > 0
		var k expr.Const
		p, pv, _ := mon.Try(func() { k = expr.NewConstInt(val, expr.Width(w)) })
		desc := fmt.Sprintf("NewConstInt[%s](%s, %d)", tname, v.String(), w)
		feat := map[string]string{"ctor": "NewConstInt"}
		if p != wantFail {
			cls := "accepts-out-of-range"
			if p {
				cls = "rejects-in-range"
			}
			feat["kind"] = cls
			c.Fail("C27.range", feat, "%s: failed=%v (panic %v), want failed=%v (signed range of %d bytes)", desc, p, pv, wantFail, w)
			continue
		}
		if nearBoundary(v, w, tb) {
			c.Nontrivial(desc)
		}
		if p {
			c.Count("rejected", 1)
			continue
		}
		c.Count("accepted", 1)
		if string(k.Bytes()) != string(encode(v, w)) || int(k.Width()) != w {
			c.Fail("C27.encoding", feat, "%s = %x (width %d), want %x", desc, k.Bytes(), k.Width(), encode(v, w))
			continue
		}
		if w == int(unsafe.Sizeof(z)) {
			f := expr.ConstFromInt(val)
			if string(f.Bytes()) != string(k.Bytes()) {
				c.Fail("C27.encoding", map[string]string{"ctor": "ConstFromInt"}, "ConstFromInt[%s](%s) = %x, want %x", tname, v, f.Bytes(), k.Bytes())
			}
		}
		decode[uint8](c, k, "uint8")
		decode[uint64](c, k, "uint64")
	}
}

func checkBytes(c *mon.Case, r *rand.Rand, w int) {
	// NewConst copies; WithWidth adjusts; later mutation of the source is invisible
	n := r.Intn(2*w + 2)
	src := gen.ConstBytes(r, n+1)[:n]
	orig := append([]byte(nil), src...)
	var k expr.Const
	p, pv, stack := mon.Try(func() { k = expr.NewConst(src, expr.Width(w)) })
	c.Eval(1)
	if p {
		c.Fail("C27.newconst.panic", nil, "NewConst(%x, %d) panicked: %v\n%s", orig, w, pv, stack)
		return
	}
	want := make([]byte, w)
	copy(want, orig)
	if string(k.Bytes()) != string(want) {
		c.Fail("C27.newconst", nil, "NewConst(%x, %d) = %x, want %x", orig, w, k.Bytes(), want)
		return
	}
	for i := range src {
		src[i] ^= 0xff
	}
	if string(k.Bytes()) != string(want) {
		c.Fail("C27.alias", nil, "NewConst(%x, %d) changed to %x after the caller modified its slice", orig, w, k.Bytes())
		return
	}
	w2 := int(gen.Width(r))
	var k2 expr.Const
	p, pv, stack = mon.Try(func() { k2 = k.WithWidth(expr.Width(w2)) })
	if p {
		c.Fail("C27.withwidth.panic", nil, "(%x).WithWidth(%d) panicked: %v\n%s", want, w2, pv, stack)
		return
	}
	want2 := make([]byte, w2)
	copy(want2, want)
	if string(k2.Bytes()) != string(want2) || int(k2.Width()) != w2 {
		c.Fail("C27.withwidth", nil, "(%x).WithWidth(%d) = %x", want, w2, k2.Bytes())
		return
	}
	if string(k.Bytes()) != string(want) {
		c.Fail("C27.withwidth", nil, "WithWidth changed its receiver")
	}
	c.Count("bytes_cases", 1)
	c.Nontrivial(fmt.Sprintf("bytes|%x|%d|%d", orig, w, w2))
	// chains of re-widthing: narrow then widen again (within and beyond the first width),
	// every intermediate constant decoded through ConstUint and re-checked at the end
	type link struct {
		k    expr.Const
		want []byte
	}
	cur := link{k, want}
	if r.Intn(2) == 0 { // the lifter's pattern: an integer constant narrowed afterwards
		v := r.Uint64() | 0xffffffff00000000
		cur = link{expr.ConstFromUint(v), encode(new(big.Int).SetUint64(v), 8)}
	}
	chain := []link{cur}
	desc := fmt.Sprintf("(%x)", cur.want)
	for step := 0; step < 1+r.Intn(4); step++ {
		var nw int
		switch r.Intn(4) {
		case 0:
			nw = 1 + r.Intn(len(cur.want)) // narrower or equal
		case 1:
			nw = len(chain[0].want) // back to the first width
		case 2:
			nw = []int{1, 2, 4, 8, 16}[r.Intn(5)]
		default:
			nw = int(gen.Width(r))
		}
		var nk expr.Const
		p, pv, stack := mon.Try(func() { nk = cur.k.WithWidth(expr.Width(nw)) })
		desc += fmt.Sprintf(".WithWidth(%d)", nw)
		if p {
			c.Fail("C27.withwidth.panic", nil, "%s panicked: %v\n%s", desc, pv, stack)
			return
		}
		nwant := make([]byte, nw)
		copy(nwant, cur.want)
		if string(nk.Bytes()) != string(nwant) || int(nk.Width()) != nw {
			c.Fail("C27.withwidth", map[string]string{"kind": "chain"}, "%s = %x (width %d), want %x", desc, nk.Bytes(), nk.Width(), nwant)
			return
		}
		cur = link{nk, nwant}
		chain = append(chain, cur)
		decode[uint8](c, nk, "uint8")
		decode[uint16](c, nk, "uint16")
		decode[uint32](c, nk, "uint32")
		decode[uint64](c, nk, "uint64")
		c.Count("withwidth_chain_steps", 1)
	}
	for i, l := range chain {
		if string(l.k.Bytes()) != string(l.want) {
			c.Fail("C27.withwidth", map[string]string{"kind": "chain-alias"}, "%s: constant %d of the chain changed from %x to %x", desc, i, l.want, l.k.Bytes())
			return
		}
	}
}

var widths = []int{1, 2, 3, 4, 5, 6, 7, 8, 9, 10, 11, 12, 13, 14, 15, 16, 17, 31, 32, 127, 128, 255}

func run(c *mon.Case) {
	r := c.Rng
	w := widths[c.Idx%len(widths)]
	checkUnsigned[uint8](c, r, w, "uint8")
	checkUnsigned[uint16](c, r, w, "uint16")
	checkUnsigned[uint32](c, r, w, "uint32")
	checkUnsigned[uint64](c, r, w, "uint64")
	checkUnsigned[uint](c, r, w, "uint")
	checkUnsigned[uintptr](c, r, w, "uintptr")
	checkSigned[int8](c, r, w, "int8")
	checkSigned[int16](c, r, w, "int16")
	checkSigned[int32](c, r, w, "int32")
	checkSigned[int64](c, r, w, "int64")
	checkSigned[int](c, r, w, "int")
	for i := 0; i < 10; i++ {
		checkBytes(c, r, w)
	}
	if string(expr.Zero.Bytes()) != "\x00" || string(expr.One.Bytes()) != "\x01" {
		c.Fail("C27.alias.global", nil, "expr.Zero/One changed")
	}
}

func main() {
	mon.Main(mon.Spec{
		Prop:        "C27",
		Rule:        "case = (constructor, integer type, value, width): every integer type x widths {1..17,31,32,127,128,255} x values within +-2 of 0, 2^(8w), 2^(8w-1), the type's range ends, 2^7, 2^8 (both signs for signed types) plus random patterns; decode through ConstUint for several target types; byte constructors with source slices shorter/longer than the width and mutated afterwards; chains of 1-4 WithWidth steps (narrow, widen back, machine widths) from byte and integer constants, each link decoded through ConstUint and re-checked at the end; non-trivial = value within 2 of a range boundary of the width or the type, distinct by call",
		Explanation: "oracle: math/big two's-complement encode/decode and range tests; 'fails' = panic; acceptance must equal membership in the unsigned (resp. signed) range of w bytes",
		Assumptions: []string{"math/big"},
		Cases: func(t string) int {
			if t == "thorough" {
				return len(widths) * 15000
			}
			return len(widths) * 300
		},
		Floor: func(t string) int {
			if t == "thorough" {
				return 20000
			}
			return 8000
		},
		RequiredCounts: []string{"accepted", "rejected", "bytes_cases", "withwidth_chain_steps"},
		Run:            run,
	})
}
