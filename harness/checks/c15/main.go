// C15 – byte memory behaves like byte-addressed memory. Oracle: shadow byte map.
package main

import (
	"fmt"

	"mltwist/internal/state/memory"
	"mltwist/pkg/expr"
	"mltwist/pkg/model"
	"mltwist/verifh/gen"
	"mltwist/verifh/memchk"
	"mltwist/verifh/mon"
	"mltwist/verifh/refir"
)

var bases = []uint64{0, 0x1000, 1<<32 - 24, 1<<63 - 24, 1 << 63, 0xffffffff80000000, 1<<64 - 64}

type blk struct {
	begin uint64
	bs    []byte
}

func (b blk) Begin() model.Addr { return model.Addr(b.begin) }
func (b blk) Bytes() []byte     { return b.bs }

func fit(addr uint64, w int) int {
	if room := ^uint64(0) - addr; uint64(w) > room {
		return int(room)
	}
	return w
}

func run(c *mon.Case) {
	r := c.Rng
	base := bases[r.Intn(len(bases))]
	win := 48
	big := r.Intn(6) == 0
	if big {
		// a wide window: reads of up to 255 bytes composed of many stored values, pieces
		// beginning 32 and more bytes into the read
		win = 280
		if base > 1<<63 {
			base = 1<<64 - 600 // window + widest access stay below 2^64
		}
		c.Count("wide_window_histories", 1)
	}
	lw := func(n int) int { // width of a read
		if big && r.Intn(2) == 0 {
			return 33 + r.Intn(223)
		}
		return 1 + r.Intn(n)
	}
	var hist []string

	// initial layout: 0..6 blocks, sometimes adjacent, sometimes overlapping, unsorted
	nb := r.Intn(7)
	var blocks []memory.ByteBlock
	var raw []blk
	var copies [][]byte
	occupied := map[uint64]int{}
	overlap := false
	for i := 0; i < nb; i++ {
		var b blk
		switch {
		case len(raw) > 0 && r.Intn(4) == 0: // adjacent to an earlier one
			o := raw[r.Intn(len(raw))]
			b.begin = o.begin + uint64(len(o.bs))
		case len(raw) > 0 && r.Intn(8) == 0: // overlapping an earlier one
			o := raw[r.Intn(len(raw))]
			b.begin = o.begin + uint64(r.Intn(len(o.bs)))
		default:
			b.begin = base + uint64(r.Intn(win))
		}
		b.bs = gen.ConstBytes(r, 1+r.Intn(6))
		if room := ^uint64(0) - b.begin; uint64(len(b.bs)) > room {
			if room == 0 {
				continue
			}
			b.bs = b.bs[:room]
		}
		for j := range b.bs {
			if _, ok := occupied[b.begin+uint64(j)]; ok {
				overlap = true
			}
			occupied[b.begin+uint64(j)] = i
		}
		raw = append(raw, b)
		blocks = append(blocks, b)
		copies = append(copies, append([]byte(nil), b.bs...))
		hist = append(hist, fmt.Sprintf("block(%#x,%x)", b.begin, b.bs))
	}
	var mem *memory.Bytes
	var err error
	p, val, stack := mon.Try(func() { mem, err = memory.NewBytes(blocks) })
	c.Eval(1)
	if p {
		c.Fail("C15.new.panic", map[string]string{"site": mon.PanicSite(stack)}, "NewBytes(%v) panicked: %v\n%s", hist, val, stack)
		return
	}
	if overlap {
		c.Count("overlapping_layouts", 1)
		if err == nil {
			c.Fail("C15.new.accepts-overlap", nil, "NewBytes accepted overlapping blocks %v", hist)
		}
		c.Nontrivial(fmt.Sprint(hist))
		return
	}
	if err != nil {
		c.Fail("C15.new.rejects-disjoint", nil, "NewBytes rejected non-overlapping blocks %v: %v", hist, err)
		return
	}
	sh := memchk.NewShadow(nil)
	for _, b := range raw {
		sh.Store(b.begin, expr.NewConst(b.bs, expr.Width(len(b.bs))), len(b.bs))
	}
	k := &memchk.Checker{C: c, Prefix: "C15", Mem: mem, Sh: sh, Envs: refir.Envs(1, 0)[:1], Hist: &hist}
	if !k.Blocks() {
		return
	}
	// the caller's slices are still the caller's: mutate them, memory must not change
	for _, b := range raw {
		for j := range b.bs {
			b.bs[j] ^= 0xa5
		}
	}
	probes := 6
	if !c.Quick() {
		probes = 10
	}
	// constants handed in (aliasing canary is their print, checked by Canaries)
	for op := 0; op < 40 && !c.Failed(); op++ {
		switch x := r.Intn(100); {
		case x < 55:
			w := int(gen.SmallWidth(r))
			addr := base + uint64(r.Intn(win))
			var ex expr.Const
			switch r.Intn(6) {
			case 0:
				ex = expr.One
			case 1:
				ex = expr.Zero
			case 2:
				ex = gen.Const(r, gen.SmallWidth(r)) // another width
			default:
				ex = gen.Const(r, expr.Width(w))
			}
			hist = append(hist, fmt.Sprintf("store(%#x,%s,%d)", addr, refir.String(ex), w))
			if !k.Store(addr, ex, w) {
				return
			}
			c.Count("stores", 1)
			if !k.Blocks() {
				return
			}
		case x < 85:
			addr := base + uint64(r.Intn(win))
			if !k.Load(addr, fit(addr, lw(20))) {
				return
			}
		default:
			addr := base + uint64(r.Intn(win))
			if !k.Missing(addr, fit(addr, 1+r.Intn(24))) {
				return
			}
			c.Count("missing_queries", 1)
		}
		for i := 0; i < probes; i++ {
			addr := base + uint64(r.Intn(win))
			if !k.Load(addr, fit(addr, lw(12))) {
				return
			}
		}
		if !k.Missing(base+uint64(r.Intn(win)), 1+r.Intn(16)) {
			return
		}
	}
	if !c.Quick() {
		for off := 0; off < win; off++ {
			for w := 1; w <= 12; w++ {
				if !k.Load(base+uint64(off), w) {
					return
				}
			}
		}
	}
	if !k.Canaries() {
		return
	}
	c.Count("loads_ok", k.LoadsOK)
	c.Count("loads_missing", k.LoadsMissing)
	c.Count("loads_nontrivial", k.LoadsNontrivial)
	c.Count("histories", 1)
	if k.LoadsNontrivial > 0 {
		c.Nontrivial(fmt.Sprint(hist))
	}
	if c.WantSample() && len(hist) > 6 {
		c.Sample(hist[:6])
	}
	_ = copies
}

func main() {
	mon.Main(mon.Spec{
		Prop:        "C15",
		Rule:        "case = initial layout of 0..6 byte blocks (adjacent, overlapping, unsorted) + history of 40 constant stores/loads/missing queries over a 48-byte window; non-trivial = overlapping layout (must be rejected) or a history with a successful load that reads a stored value in part or spans >=2 stored values/blocks",
		Explanation: "oracle: shadow byte map; NewBytes must fail iff two blocks share an address; the caller's block slices are scrambled after construction and every constant handed in (incl. expr.Zero/One and constants wider or narrower than the write) is re-printed at the end; loads/missing/blocks compared after every operation",
		Assumptions: []string{"refir reference evaluator", "no empty initial blocks, no wrapping ranges"},
		Cases: func(t string) int {
			if t == "thorough" {
				return 1500000
			}
			return 60000
		},
		Floor: func(t string) int {
			if t == "thorough" {
				return 50000
			}
			return 2000
		},
		RequiredCounts: []string{"wide_window_histories", "loads_nontrivial", "loads_missing", "stores", "overlapping_layouts"},
		Run:            run,
	})
}
