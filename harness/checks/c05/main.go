// C05 – accepted instruction reorderings preserve block behaviour.
package main

import (
	"fmt"
	"strings"

	"mltwist/verifh/depgen"
	"mltwist/verifh/mon"
	"mltwist/verifh/refir"
)

func run(c *mon.Case) {
	r := c.Rng
	// one block of interest (3..10 instructions) between optional neighbours
	cs := depgen.GenCode(r, 1+r.Intn(3), 10, 2+r.Intn(3))
	code, err := cs.Build()
	if err != nil {
		c.Fail("C05.harness", nil, "generated code rejected: %v\n%s", err, depgen.Listing(cs.Ins))
		return
	}
	fresh, _ := cs.Build()
	byAddr := map[uint64]depgen.Ins{}
	for _, in := range cs.Ins {
		byAddr[in.Addr] = in
	}
	// pick the largest block
	bi := 0
	for i := range code.Blocks() {
		if code.Index(i).Num() > code.Index(bi).Num() {
			bi = i
		}
	}
	b := code.Index(bi)
	n := b.Num()
	if n < 3 {
		c.Count("blocks_too_small", 1)
		return
	}
	var orig []depgen.Ins
	for _, in := range b.Instructions() {
		orig = append(orig, byAddr[uint64(in.OrigAddr())])
	}
	blockEnd := uint64(b.End())
	var hist []string
	changed := 0
	envs := make([]refir.Env, 6)
	for i := range envs {
		envs[i] = depgen.Env(uint64(c.Idx)*16 + uint64(i) + uint64(c.Seed)<<32)
	}
	desc := func() string {
		cur := ""
		for _, in := range b.Instructions() {
			cur += fmt.Sprintf("%#x ", in.OrigAddr())
		}
		return fmt.Sprintf("moves: %s\ncurrent order (original addresses): %s\nblock:\n%s", strings.Join(hist, "; "), cur, depgen.Listing(orig))
	}
	for att := 0; att < 30; att++ {
		from, to := r.Intn(n), r.Intn(n)
		if r.Intn(2) == 0 { // adjacent swaps reach every permutation the tool allows
			to = from + 1 - 2*r.Intn(2)
			if to < 0 || to >= n {
				continue
			}
		}
		if from == to {
			continue
		}
		if err := b.Move(from, to); err != nil {
			c.Count("moves_rejected", 1)
			continue
		}
		// block moves in between never change behaviour or addresses
		if code.Len() > 1 && r.Intn(4) == 0 {
			x, y := r.Intn(code.Len()), r.Intn(code.Len())
			code.Move(x, y)
			hist = append(hist, fmt.Sprintf("blockmove(%d,%d)", x, y))
		}
		hist = append(hist, fmt.Sprintf("move(%d,%d)", from, to))
		c.Count("moves_accepted", 1)
		changed++
		var cur []depgen.Ins
		for _, in := range b.Instructions() {
			cur = append(cur, byAddr[uint64(in.OrigAddr())])
		}
		c.Eval(1)
		// (a) reference IR semantics of the new order
		for ei, env := range envs {
			if msg := depgen.CompareRef(orig, cur, blockEnd, env); msg != "" {
				c.Fail("C05.order", map[string]string{"kind": kindOf(msg)}, "pre-state %d: %s\n%s", ei, msg, desc())
				return
			}
		}
		// (b) the real emulator over the moved code vs a fresh, un-moved code
		for ei, env := range envs[:2] {
			want, perr := depgen.RunEmu(fresh, uint64(b.Begin()), n, env)
			if perr != "" {
				c.Fail("C05.emulator.panic", nil, "fresh code: %s\n%s", perr, desc())
				return
			}
			got, perr := depgen.RunEmu(code, uint64(b.Begin()), n, env)
			if perr != "" {
				c.Fail("C05.emulator.panic", nil, "moved code: %s\n%s", perr, desc())
				return
			}
			if got != want {
				c.Fail("C05.emulator", map[string]string{"jnext": fmt.Sprint(hasJnext(cur))}, "pre-state %d: emulating the moved block gives\n  %s\nthe original block gives\n  %s\n%s", ei, clip(got), clip(want), desc())
				return
			}
		}
	}
	// ---- every order reachable by accepted adjacent swaps (small blocks): depth-first
	// over the real block with undo; each new order is judged like an accepted move
	if lim := exploreLimit(c); n <= lim {
		seen := map[string]bool{}
		key := func() string {
			k := ""
			for _, in := range b.Instructions() {
				k += fmt.Sprintf("%x,", uint64(in.OrigAddr()))
			}
			return k
		}
		ok := true
		var dfs func()
		dfs = func() {
			for i := 0; i+1 < n && ok; i++ {
				if b.Move(i, i+1) != nil {
					continue
				}
				if k := key(); !seen[k] {
					seen[k] = true
					var cur []depgen.Ins
					for _, in := range b.Instructions() {
						cur = append(cur, byAddr[uint64(in.OrigAddr())])
					}
					c.Eval(1)
					for ei, env := range envs[:3] {
						if msg := depgen.CompareRef(orig, cur, blockEnd, env); msg != "" {
							hist = append(hist, "exhaustive exploration of adjacent swaps")
							c.Fail("C05.order", map[string]string{"kind": kindOf(msg), "when": "all-reachable-orders"}, "pre-state %d: %s\n%s", ei, msg, desc())
							ok = false
							return
						}
					}
					want, p1 := depgen.RunEmu(fresh, uint64(b.Begin()), n, envs[0])
					got, p2 := depgen.RunEmu(code, uint64(b.Begin()), n, envs[0])
					if p1 != "" || p2 != "" || got != want {
						c.Fail("C05.emulator", map[string]string{"jnext": fmt.Sprint(hasJnext(cur)), "when": "all-reachable-orders"}, "emulating a reachable order gives\n  %s %s\nthe original block gives\n  %s %s\n%s", clip(got), p2, clip(want), p1, desc())
						ok = false
						return
					}
					dfs()
				}
				if !ok {
					return
				}
				if b.Move(i+1, i) != nil {
					c.Count("exploration_undo_rejected", 1) // C06/C07's subject; stop exploring
					ok = false
					return
				}
			}
		}
		seen[key()] = true
		dfs()
		if !ok && c.Failed() {
			return
		}
		c.Count("blocks_fully_explored", 1)
		c.Count("reachable_orders_judged", len(seen))
	}
	// addresses and behaviour of other blocks untouched by block moves: every instruction keeps its effects
	for _, bb := range code.Blocks() {
		for _, in := range bb.Instructions() {
			o := byAddr[uint64(in.OrigAddr())]
			if refir.EffectsString(in.Effects()) != refir.EffectsString(o.Effects) {
				c.Fail("C05.effects-changed", nil, "instruction %#x changed its effects\n%s", in.OrigAddr(), desc())
				return
			}
		}
	}
	c.Count("blocks", 1)
	if changed >= 3 {
		c.Nontrivial(desc())
	}
	if c.WantSample() && n <= 6 && changed > 0 {
		c.Sample(map[string]any{"block": strings.Split(strings.TrimSpace(depgen.Listing(orig)), "\n"), "accepted_moves": hist})
	}
}

// exploreLimit: blocks up to this size are explored completely.
func exploreLimit(c *mon.Case) int {
	if c.Quick() {
		if c.Idx%4 == 0 {
			return 5
		}
		return 0
	}
	return 6
}

func hasJnext(is []depgen.Ins) bool {
	for i, in := range is {
		if in.Facts.WritesIP && !in.Facts.RealJump() && i < len(is) {
			return true
		}
	}
	return false
}

func kindOf(msg string) string {
	if strings.HasPrefix(msg, "control") {
		return "control"
	}
	return "state"
}

func clip(s string) string {
	if len(s) > 700 {
		return s[:700] + "..."
	}
	return s
}

func main() {
	mon.Main(mon.Spec{
		Prop:        "C05",
		Rule:        "case = synthetic basic block (3..10 instructions over 2-4 registers + 2 address registers, 2 memory spaces: several writers of one register with readers in between, store/load/store chains, atomics, fences, syscalls, CPU-state changes, jumps to the next instruction, terminating constant/conditional/indirect jumps) and a random walk of 30 move attempts (half adjacent swaps) mixed with block moves; afterwards, for blocks of at most 5 (quick, every 4th case) / 6 (thorough) instructions, every order reachable by accepted adjacent swaps is visited depth-first on the real block and judged; non-trivial = block with >=3 accepted order-changing moves; distinct by block+moves",
		Explanation: "two oracles after every accepted move: (a) the instructions' effects applied in the new order with the reference IR semantics on 6 pre-states must end in the same registers, memory and control transfer as the original order (an IP write equal to the original fall-through address is a fall-through); (b) the real emulator stepped over the moved code must end in the same state as over a fresh un-moved copy",
		Assumptions: []string{"refir evaluator", "blocks built through deps.NewCode from synthetic parser.Instruction values"},
		Cases: func(t string) int {
			if t == "thorough" {
				return 250000
			}
			return 30000
		},
		Floor: func(t string) int {
			if t == "thorough" {
				return 30000
			}
			return 3000
		},
		RequiredCounts: []string{"moves_accepted", "moves_rejected", "blocks_fully_explored", "reachable_orders_judged"},
		Run:            run,
	})
}
