// C30 – numeric user input is parsed exactly. Oracle: an independent literal parser.
package main

import (
	"fmt"
	"math/big"
	"math/rand"
	"strings"

	"mltwist/internal/consoleui/emulate"
	"mltwist/internal/consoleui/verifhooks"
	"mltwist/pkg/expr"
	"mltwist/pkg/model"
	"mltwist/verifh/mon"
	"mltwist/verifh/refir"
	"mltwist/verifh/uichk"
)

func digitsOf(base int) string {
	return "0123456789abcdefABCDEF"[:map[int]int{2: 2, 8: 8, 10: 10, 16: 22}[base]]
}

func parseDigits(s string, base int) (*big.Int, bool) {
	if s == "" {
		return nil, false
	}
	v := new(big.Int)
	for _, ch := range s {
		var d int
		switch {
		case ch >= '0' && ch <= '9':
			d = int(ch - '0')
		case ch >= 'a' && ch <= 'f':
			d = int(ch-'a') + 10
		case ch >= 'A' && ch <= 'F':
			d = int(ch-'A') + 10
		default:
			return nil, false
		}
		if d >= base {
			return nil, false
		}
		v.Mul(v, big.NewInt(int64(base)))
		v.Add(v, big.NewInt(int64(d)))
	}
	return v, true
}

// refAddr is the statement's grammar for the memory-view address argument.
func refAddr(s string) (uint64, bool) {
	var v *big.Int
	var ok bool
	switch {
	case strings.HasPrefix(s, "0x") || strings.HasPrefix(s, "0X"):
		v, ok = parseDigits(s[2:], 16)
	case strings.HasPrefix(s, "0b") || strings.HasPrefix(s, "0B"):
		v, ok = parseDigits(s[2:], 2)
	case len(s) > 1 && s[0] == '0':
		v, ok = parseDigits(s[1:], 8)
	default:
		v, ok = parseDigits(s, 10)
	}
	if !ok || !v.IsUint64() {
		return 0, false
	}
	return v.Uint64(), true
}

// refValue is the grammar of a typed value: optional '-', then a literal in base
// 16 (0x), 2 (0b), 8 (0o or leading 0) or 10.
func refValue(s string) (*big.Int, bool) {
	neg := false
	if strings.HasPrefix(s, "-") {
		neg, s = true, s[1:]
	}
	var v *big.Int
	var ok bool
	switch {
	case strings.HasPrefix(s, "0x") || strings.HasPrefix(s, "0X"):
		v, ok = parseDigits(s[2:], 16)
	case strings.HasPrefix(s, "0b") || strings.HasPrefix(s, "0B"):
		v, ok = parseDigits(s[2:], 2)
	case strings.HasPrefix(s, "0o") || strings.HasPrefix(s, "0O"):
		v, ok = parseDigits(s[2:], 8)
	case len(s) > 1 && s[0] == '0':
		v, ok = parseDigits(s[1:], 8)
	default:
		v, ok = parseDigits(s, 10)
	}
	if !ok {
		return nil, false
	}
	if neg {
		v.Neg(v)
	}
	return v, true
}

func genToken(r *rand.Rand) (string, string) {
	base := []int{10, 16, 2, 8}[r.Intn(4)]
	ds := digitsOf(base)
	n := 1 + r.Intn(8)
	switch r.Intn(6) {
	case 0:
		n = 1
	case 1:
		n = []int{16, 17, 20, 21, 22, 63, 64, 65}[r.Intn(8)]
	}
	var sb strings.Builder
	for i := 0; i < n; i++ {
		sb.WriteByte(ds[r.Intn(len(ds))])
	}
	body := sb.String()
	if base == 10 {
		body = strings.TrimLeft(body, "0")
		if body == "" {
			body = "0"
		}
	}
	prefix := map[int][]string{10: {""}, 16: {"0x", "0X"}, 2: {"0b", "0B"}, 8: {"0"}}[base]
	tok := prefix[r.Intn(len(prefix))] + body
	feat := fmt.Sprintf("base%d", base)
	switch r.Intn(14) {
	case 0: // boundary values
		v := []string{"18446744073709551615", "18446744073709551616", "0xffffffffffffffff", "0x10000000000000000",
			"01777777777777777777777", "02000000000000000000000", "0b" + strings.Repeat("1", 64), "0b1" + strings.Repeat("0", 64),
			"0", "00", "08", "09", "1", "7", "0x", "0X", "0b", "0B", "0x0", "0b0", "0b2", "0xg", "0o7", "9223372036854775808"}
		tok, feat = v[r.Intn(len(v))], "boundary"
	case 1: // malformed
		junk := []string{"_", "+", "-", " ", "x", ".", "e", "h", "$", "'"}
		p := r.Intn(len(tok) + 1)
		tok, feat = tok[:p]+junk[r.Intn(len(junk))]+tok[p:], "malformed"
	case 2:
		tok, feat = string(rune(33+r.Intn(94))), "one-char"
	case 3:
		tok, feat = string(rune(33+r.Intn(94)))+string(rune(33+r.Intn(94))), "two-char"
	}
	return tok, feat
}

func run(c *mon.Case) {
	uichk.Init()
	r := c.Rng
	for sub := 0; sub < 60; sub++ {
		tok, feat := genToken(r)
		// ---- memory-view address argument (tokens contain no space and are non-empty)
		if !strings.ContainsAny(tok, " \t") && tok != "" {
			var got model.Addr
			var err error
			pn, val, stack := mon.Try(func() { got, err = verifhooks.ParseAddr(tok) })
			c.Eval(1)
			want, wok := refAddr(tok)
			f := map[string]string{"token": feat}
			switch {
			case pn:
				f["len"] = fmt.Sprint(min(len(tok), 3))
				c.Fail("C30.addr.panic", f, "parsing address %q panicked: %v\n%s", tok, val, stack)
			case wok && err != nil:
				f["form"] = formOf(tok)
				c.Fail("C30.addr.rejects-valid", f, "address %q (= %#x) rejected: %v", tok, want, err)
			case !wok && err == nil:
				c.Fail("C30.addr.accepts-invalid", f, "address %q accepted as %#x", tok, got)
			case wok && uint64(got) != want:
				c.Fail("C30.addr.value", f, "address %q parsed as %#x, denotes %#x", tok, got, want)
			default:
				c.Count("addr_tokens", 1)
				if wok {
					c.Count("addr_valid_"+formOf(tok), 1)
				}
				if feat != "base10" || len(tok) <= 2 {
					c.Nontrivial("addr|" + tok)
				}
			}
		}
		// ---- emulator value prompt
		w := expr.Width(1 + r.Intn(16))
		if r.Intn(12) == 0 {
			w = 255
		}
		line := tok
		mode := "plain"
		switch r.Intn(8) {
		case 0:
			line, mode = "-"+tok, "minus"
		case 1:
			line, mode = "", "empty"
		case 2:
			line, mode = "+"+tok, "plus"
		case 3:
			line, mode = " "+tok+" ", "padded"
		case 4:
			p := r.Intn(len(tok) + 1)
			line, mode = tok[:p]+"_"+tok[p:], "underscore"
		}
		if r.Intn(12) == 0 {
			// values on the modulus: +-k*2^(8w) and neighbours, +-2^(8w-1), in any base
			v := new(big.Int).Lsh(big.NewInt(int64([]int{1, 1, 2, 3, 256}[r.Intn(5)])), uint(8*int(w)))
			switch r.Intn(5) {
			case 0:
				v.Add(v, big.NewInt(1))
			case 1:
				v.Sub(v, big.NewInt(1))
			case 2:
				v.Rsh(v, 1)
			}
			line = map[int]string{0: v.Text(10), 1: "0x" + v.Text(16), 2: "0b" + v.Text(2), 3: "0o" + v.Text(8), 4: "0" + v.Text(8)}[r.Intn(5)]
			if r.Intn(3) != 0 {
				line = "-" + line
			}
			mode = "modulus"
			c.Count("value_on_modulus", 1)
		}
		if r.Intn(25) == 0 {
			// very long lines (around and beyond the line reader's 4 KiB buffer): a
			// prefixed literal padded with zeros behind its prefix, or a long decimal
			n := []int{4090, 4094, 4095, 4096, 4097, 4100, 8190, 8192, 8193, 12000, 20000}[r.Intn(11)]
			neg := ""
			if r.Intn(2) == 0 {
				neg = "-"
			}
			switch r.Intn(3) {
			case 0:
				line = neg + "0x" + strings.Repeat("0", n) + fmt.Sprintf("%x", r.Uint64())
			case 1:
				line = neg + "0b" + strings.Repeat("0", n) + fmt.Sprintf("%b", r.Uint32())
			default:
				ds := make([]byte, n)
				for i := range ds {
					ds[i] = byte('0' + r.Intn(10))
				}
				ds[0] = byte('1' + r.Intn(9))
				line = neg + string(ds)
			}
			if r.Intn(4) == 0 { // junk early in the line must still be noticed
				p := 2 + r.Intn(200)
				line = line[:p] + "z" + line[p+1:]
			}
			mode = "long-line"
			c.Count("value_long_lines", 1)
		}
		uichk.Feed.Reset()
		uichk.Feed.EOF = false
		uichk.Feed.Push(line)
		var cv expr.Const
		var err error
		pn, val, stack := mon.Try(func() { cv, err = emulate.VerifReadValue(w) })
		c.Eval(1)
		f := map[string]string{"input": mode}
		if pn {
			c.Fail("C30.value.panic", f, "typing %q at a %d-byte value prompt panicked: %v\n%s", line, w, val, stack)
			continue
		}
		if len(uichk.Feed.Consumed) != 1 {
			c.Fail("C30.value.lines", f, "reading one value consumed %d lines", len(uichk.Feed.Consumed))
			continue
		}
		if mode == "plus" || mode == "padded" || strings.HasPrefix(line, "+") || line != strings.TrimSpace(line) {
			c.Count("value_unspecified_inputs", 1)
			continue // unspecified: crash check only
		}
		want, wok := refValue(line)
		if mode == "empty" || mode == "underscore" || strings.Contains(line, "_") {
			wok = false
		}
		switch {
		case wok && err != nil:
			c.Fail("C30.value.rejects-valid", f, "value %q rejected: %v", line, err)
		case !wok && err == nil:
			c.Fail("C30.value.accepts-invalid", f, "value %q accepted as %x", line, cv.Bytes())
		case wok:
			m := new(big.Int).Mod(want, refir.Mod2(int(w)))
			if int(cv.Width()) != int(w) || refir.FromLE(cv.Bytes()).Cmp(m) != 0 {
				c.Fail("C30.value.value", f, "value %q at width %d became %x (LE), the integer modulo 2^(8w) is %x", line, w, cv.Bytes(), refir.ToLE(m, int(w)))
			} else {
				c.Count("values_accepted", 1)
				c.Nontrivial(fmt.Sprintf("val|%d|%s", w, line))
			}
		default:
			c.Count("values_rejected", 1)
		}
	}
	if c.WantSample() {
		c.Sample(map[string]string{"address_token": "0x1F", "value_line": "-0b101"})
	}
}

func formOf(tok string) string {
	switch {
	case strings.HasPrefix(tok, "0x") || strings.HasPrefix(tok, "0X"):
		return "hex"
	case strings.HasPrefix(tok, "0b") || strings.HasPrefix(tok, "0B"):
		return "binary"
	case tok == "0":
		return "zero"
	case strings.HasPrefix(tok, "0"):
		return "octal"
	}
	return "decimal"
}

func min(a, b int) int {
	if a < b {
		return a
	}
	return b
}

func main() {
	mon.Main(mon.Spec{
		Prop:        "C30",
		Rule:        "case = token/line: literals in base 10/16/2/8 with 1..65 digits and both prefix spellings, boundary tokens (2^64-1 and 2^64 in every base, 0, 00, 08, bare prefixes, 0b2, 0xg), malformed tokens (one inserted '_', sign, space, letter), all kinds of one- and two-character tokens; value lines additionally with '-', '+', padding, underscores and empty, at widths 1..16 and 255, one line in 12 a value on the modulus (+-k*2^(8w), its neighbours, +-2^(8w-1)) in any base, one line in 25 being 4-20 thousand characters long (zero-padded prefixed literals, long decimals, some with an early junk character); non-trivial = accepted value, or address token that is not a plain multi-digit decimal; distinct by token",
		Explanation: "oracle: an independent literal parser: an address token of one of the four stated forms must give exactly its value (< 2^64), every other token must be answered with an error, never a panic; a typed value with optional '-' must become the integer modulo 2^(8w) as a w-byte constant and consume exactly one line; empty lines, underscores and malformed numbers must be rejected; '+'-prefixed and whitespace-padded lines are checked for no-crash only",
		Assumptions: []string{"parseAddr and readValue reached through verif hooks; the line is fed through the replaced line reader"},
		Cases: func(t string) int {
			if t == "thorough" {
				return 1500000
			}
			return 15000
		},
		Floor: func(t string) int {
			if t == "thorough" {
				return 1000000
			}
			return 100000
		},
		RequiredCounts: []string{"addr_tokens", "values_accepted", "values_rejected", "value_long_lines", "value_on_modulus"},
		Run:            run,
	})
}
