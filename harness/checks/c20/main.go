// C20 – ELF images are loaded faithfully. Oracle: the generator's own model of
// the file it wrote.
package main

import (
	"fmt"
	"os"
	"path/filepath"
	"sort"

	"mltwist/internal/elf"
	"mltwist/pkg/model"
	"mltwist/verifh/elfgen"
	"mltwist/verifh/mon"
)

var workDir string

func setup(string) {
	workDir = filepath.Join(os.Getenv("VERIF_DIR"), "work", fmt.Sprintf("c20-files-%d", os.Getpid()))
	os.MkdirAll(workDir, 0o755)
}

type loaded struct {
	openErr, codeErr, memErr error
	code, mem                *elf.Memory
	entry                    uint64
}

func load(path string) (l loaded, panicked bool, val any, stack string) {
	panicked, val, stack = mon.Try(func() {
		p, err := elf.NewParser(path)
		if err != nil {
			l.openErr = err
			return
		}
		defer p.Close()
		l.entry = uint64(p.Entrypoint())
		l.code, l.codeErr = p.MachineCode()
		l.mem, l.memErr = p.Memory()
	})
	return
}

func describe(f *elfgen.File) string {
	s := fmt.Sprintf("class64=%v be=%v type=%d entry=%#x segs:", f.Class64, f.BigEndian, f.Type, f.Entry)
	for _, g := range f.Segs {
		s += fmt.Sprintf(" {t=%#x va=%#x fsz=%d msz=%d}", g.Type, g.Vaddr, g.Filesz, g.Memsz)
	}
	s += " secs:"
	for _, g := range f.Secs {
		s += fmt.Sprintf(" {%s t=%#x fl=%#x addr=%#x size=%d}", g.Name, g.Type, g.Flags, g.Addr, g.Size)
	}
	return s
}

// compareBlocks checks a loaded memory against the expected blocks.
func compareBlocks(m *elf.Memory, want []elfgen.Block) string {
	var nz []elfgen.Block
	for _, b := range want {
		if len(b.Data) > 0 {
			nz = append(nz, b)
		}
	}
	sort.Slice(nz, func(i, j int) bool { return nz[i].Begin < nz[j].Begin })
	var got []elf.Block
	for _, b := range m.Blocks {
		if b.Len() > 0 {
			got = append(got, b)
		}
	}
	for i := 1; i < len(m.Blocks); i++ {
		if m.Blocks[i].Begin() < m.Blocks[i-1].End() {
			return fmt.Sprintf("blocks %d and %d are unsorted or overlap", i-1, i)
		}
	}
	if len(got) != len(nz) {
		return fmt.Sprintf("%d non-empty blocks, expected %d", len(got), len(nz))
	}
	for i, w := range nz {
		g := got[i]
		if uint64(g.Begin()) != w.Begin || string(g.Bytes()) != string(w.Data) {
			return fmt.Sprintf("block %d is [%#x,+%d) %x..., expected [%#x,+%d) %x...", i, g.Begin(), g.Len(), head(g.Bytes()), w.Begin, len(w.Data), head(w.Data))
		}
		// address lookups
		for _, k := range []int{0, 1, len(w.Data) / 2, len(w.Data) - 1} {
			if k < 0 || k >= len(w.Data) {
				continue
			}
			if a := m.Address(model.Addr(w.Begin + uint64(k))); string(a) != string(w.Data[k:]) {
				return fmt.Sprintf("Address(%#x) returns %d bytes %x..., expected the %d bytes to the end of its block", w.Begin+uint64(k), len(a), head(a), len(w.Data)-k)
			}
		}
		end := w.End()
		covered := false
		for _, o := range nz {
			if end >= o.Begin && end < o.End() {
				covered = true
			}
		}
		if a := m.Address(model.Addr(end)); !covered && a != nil {
			return fmt.Sprintf("Address(%#x) (unmapped, just behind a block) returns %d bytes", end, len(a))
		}
		if w.Begin > 0 {
			covered = false
			for _, o := range nz {
				if w.Begin-1 >= o.Begin && w.Begin-1 < o.End() {
					covered = true
				}
			}
			if a := m.Address(model.Addr(w.Begin - 1)); !covered && a != nil {
				return fmt.Sprintf("Address(%#x) (unmapped, just before a block) returns %d bytes", w.Begin-1, len(a))
			}
		}
	}
	return ""
}

func head(b []byte) []byte {
	if len(b) > 8 {
		return b[:8]
	}
	return b
}

func run(c *mon.Case) {
	r := c.Rng
	f := elfgen.Random(r)
	huge := c.Idx%10 == 0
	if huge && len(f.Segs) > 0 {
		s := &f.Segs[r.Intn(len(f.Segs))]
		s.Type = elfgen.PTLoad
		s.Memsz = []uint64{1 << 31, 1<<32 - 1, 1 << 40, 1 << 62, 1<<63 + 5, ^uint64(0), 1<<30 + 1}[r.Intn(7)]
	}
	bs, marks := f.Bytes()
	exp := f.Model(1 << 20)
	path := filepath.Join(workDir, fmt.Sprintf("case-%d.elf", c.Idx))
	defer os.Remove(path)
	if err := os.WriteFile(path, bs, 0o644); err != nil {
		c.Fail("C20.harness", nil, "write: %v", err)
		return
	}
	l, pn, val, stack := load(path)
	c.Eval(1)
	desc := describe(f)
	if pn {
		c.Fail("C20.panic", map[string]string{"site": mon.PanicSite(stack), "huge": fmt.Sprint(huge)}, "loading panicked: %v\n%s\n%s", val, desc, stack)
		return
	}
	// ---- judged part
	if exp.RejectType {
		c.Count("files_type_must_reject", 1)
		c.Nontrivial("type|" + desc)
		if l.openErr == nil {
			c.Fail("C20.accepts-type", map[string]string{"type": fmt.Sprint(f.Type)}, "file of type %d accepted\n%s", f.Type, desc)
		}
	} else if l.openErr != nil {
		c.Count("unexpected_errors", 1)
	} else {
		c.Count("files_opened", 1)
		if l.entry != func() uint64 {
			if f.Class64 {
				return f.Entry
			}
			return uint64(uint32(f.Entry))
		}() {
			c.Fail("C20.entry", nil, "entry point %#x, file says %#x\n%s", l.entry, f.Entry, desc)
			return
		}
		// program memory
		memOverlap := false
		{
			var nz []elfgen.Block
			for _, b := range exp.Mem {
				nz = append(nz, b)
			}
			sort.Slice(nz, func(i, j int) bool { return nz[i].Begin < nz[j].Begin })
			for i := 1; i < len(nz); i++ {
				if nz[i].Begin < nz[i-1].End() {
					memOverlap = true
				}
			}
		}
		switch {
		case exp.MemTooBig:
			c.Count("huge_segments", 1)
			if l.memErr == nil {
				c.Fail("C20.huge-accepted", nil, "a segment of absurd in-memory size was accepted\n%s", desc)
				return
			}
		case memOverlap:
			c.Count("overlapping_segments", 1)
			c.Nontrivial("ovl|" + desc)
			if l.memErr == nil {
				c.Fail("C20.accepts-overlap", map[string]string{"what": "segments"}, "overlapping loadable segments accepted\n%s", desc)
				return
			}
		case exp.MemReject:
			// memsz<filesz or nothing loadable: an error is allowed, acceptance is not judged
		case l.memErr != nil:
			c.Count("unexpected_errors", 1)
		default:
			if msg := compareBlocks(l.mem, exp.Mem); msg != "" {
				c.Fail("C20.memory", nil, "program memory: %s\n%s", msg, desc)
				return
			}
			c.Count("memories_compared", 1)
			if len(exp.Mem) >= 2 {
				c.Nontrivial("mem|" + desc)
			}
		}
		// code image
		codeOverlap := false
		{
			nz := append([]elfgen.Block(nil), exp.Code...)
			sort.Slice(nz, func(i, j int) bool { return nz[i].Begin < nz[j].Begin })
			for i := 1; i < len(nz); i++ {
				if nz[i].Begin < nz[i-1].End() {
					codeOverlap = true
				}
			}
		}
		switch {
		case codeOverlap:
			c.Count("overlapping_sections", 1)
			c.Nontrivial("ovs|" + desc)
			if l.codeErr == nil {
				c.Fail("C20.accepts-overlap", map[string]string{"what": "sections"}, "overlapping code sections accepted\n%s", desc)
				return
			}
		case len(exp.Code) == 0:
			if l.codeErr == nil && len(l.code.Blocks) > 0 {
				c.Fail("C20.code", nil, "code image has %d blocks although no section qualifies\n%s", len(l.code.Blocks), desc)
				return
			}
		case l.codeErr != nil:
			c.Count("unexpected_errors", 1)
		default:
			if msg := compareBlocks(l.code, exp.Code); msg != "" {
				c.Fail("C20.code", nil, "code image: %s\n%s", msg, desc)
				return
			}
			c.Count("code_images_compared", 1)
			if len(exp.Code) >= 2 {
				c.Nontrivial("code|" + desc)
			}
		}
	}
	if c.WantSample() && !exp.RejectType {
		c.Sample(desc)
	}
	// ---- hostile variants: truncations at structural boundaries and header bit flips;
	// only "error or no crash" is judged
	for k := 0; k < 6; k++ {
		mut := append([]byte(nil), bs...)
		if k%2 == 0 {
			m := marks[r.Intn(len(marks))] + r.Intn(3) - 1
			if m < 0 {
				m = 0
			}
			if m > len(mut) {
				m = len(mut)
			}
			mut = mut[:m]
		} else {
			hdr := 64 + 56*len(f.Segs)
			if hdr > len(mut) {
				hdr = len(mut)
			}
			pos := r.Intn(hdr)
			if r.Intn(2) == 0 && len(mut) > 70 { // section headers live at the end
				pos = len(mut) - 1 - r.Intn(64*(len(f.Secs)+2))
				if pos < 0 {
					pos = 0
				}
			}
			mut[pos] ^= byte(1 << uint(r.Intn(8)))
		}
		if err := os.WriteFile(path, mut, 0o644); err != nil {
			continue
		}
		_, pn, val, stack := load(path)
		c.Eval(1)
		c.Count("hostile_variants", 1)
		if pn {
			c.Fail("C20.panic", map[string]string{"site": mon.PanicSite(stack), "huge": "mutated"}, "loading a corrupted variant (%d bytes) panicked: %v\noriginal: %s\n%s", len(mut), val, desc, stack)
			return
		}
	}
}

func main() {
	mon.Main(mon.Spec{
		Prop:        "C20",
		Rule:        "case = generated ELF file (own writer: class 32/64, LE/BE, e_type 0..4, 0..4 segments incl. non-LOAD types, bss, memsz<filesz, empty, adjacent and overlapping, absurd in-memory sizes; 0..4 sections incl. non-executable, NOBITS, other types, zero address, empty, adjacent and overlapping; shuffled tables) plus 6 hostile variants of it (truncation at a structural boundary, header bit flip); non-trivial = file that must be rejected (type none/rel/core, overlapping segments or sections) or accepted file with >=2 loadable segments or >=2 code sections; distinct by description",
		Explanation: "oracle: the generator's model of the file it wrote: expected program memory (file bytes then zeros to memsz per PT_LOAD) and code image (non-empty, executable, address-bearing PROGBITS sections), compared block by block and through Memory.Address probes at block starts, interiors, ends and neighbours; must-reject files must be rejected; an unexpected error alone is never a violation (counted); hostile variants are judged for 'no panic' only",
		Assumptions: []string{"files are written to /verif/work and removed after each case", "each shard runs under RLIMIT_AS 6 GiB so that absurd sizes fail fast"},
		Cases: func(t string) int {
			if t == "thorough" {
				return 200000
			}
			return 16000
		},
		Floor: func(t string) int {
			if t == "thorough" {
				return 50000
			}
			return 2000
		},
		ChildSetup:     setup,
		RlimitAS:       6 << 30,
		RequiredCounts: []string{"files_opened", "memories_compared", "code_images_compared", "overlapping_segments", "overlapping_sections", "files_type_must_reject", "hostile_variants"},
		Run:            run,
	})
}
