// C22 – console input never crashes the UI.
package main

import (
	"bytes"
	"fmt"
	"math/rand"
	"os"
	"os/exec"
	"path/filepath"
	"regexp"
	"strconv"
	"strings"
	"time"

	"mltwist/internal/consoleui"
	"mltwist/internal/consoleui/disassemble"
	"mltwist/verifh/elfgen"
	"mltwist/verifh/emuchk"
	"mltwist/verifh/mon"
	"mltwist/verifh/ptyx"
	"mltwist/verifh/uichk"
)

// binFile is private to one run (parent pid in the name, handed to the shards through the
// environment): concurrent runs against different trees must not share the binary.
func binFile() string {
	if p := os.Getenv("VERIF_BIN_C22"); p != "" {
		return p
	}
	p := filepath.Join(os.Getenv("VERIF_DIR"), "work", fmt.Sprintf("mltwist-c22-%d", os.Getpid()))
	os.Setenv("VERIF_BIN_C22", p)
	return p
}

func parentSetup(string) error {
	repo := os.Getenv("VERIF_REPO_DIR")
	if repo == "" {
		repo = "/repo"
	}
	cmd := exec.Command("go", "build", "-o", binFile(), "./cmd/mltwist")
	cmd.Dir = repo
	cmd.Env = append(os.Environ(), "GOFLAGS=-mod=mod", "GOPROXY=off", "GOSUMDB=off", "GOTOOLCHAIN=local")
	if out, err := cmd.CombinedOutput(); err != nil {
		return fmt.Errorf("building cmd/mltwist (hooks off): %v\n%s", err, out)
	}
	return nil
}

func nPty(t string) int {
	if t == "thorough" {
		return 3000
	}
	return 64
}

func run(c *mon.Case) {
	if c.Idx < nPty(c.Tier) {
		ptySession(c)
		return
	}
	if k := c.Idx - nPty(c.Tier); k >= 0 && k < 2 {
		topOfMemory(c, []int{0, 6}[k]) // store first / load first
		return
	}
	inProcess(c)
}

func listingLen(s *uichk.Session) int {
	if ls, _, ok := disassemble.VerifListing(s.UI.VerifMode()); ok {
		return len(ls)
	}
	return 20
}

func inProcess(c *mon.Case) {
	uichk.Init()
	r := c.Rng
	s, err := uichk.NewSessionAt(r, 2, uichk.PickBase(r))
	if err != nil {
		c.Count("session_build_failed", 1)
		return
	}
	var hist []string
	modes := map[string]bool{}
	rejected := 0
	desc := func() string {
		h := hist
		if len(h) > 45 {
			h = h[len(h)-45:]
		}
		q := make([]string, len(h))
		for i, x := range h {
			q[i] = fmt.Sprintf("%q", x)
		}
		return fmt.Sprintf("mode %q (depth %d); input lines: %s\nprogram:\n%s", s.UI.VerifModeName(), s.UI.VerifDepth(), strings.Join(q, " "), s.Prog.Listing())
	}
	for n := 0; n < 40; n++ {
		mode := s.UI.VerifModeName()
		modes[modeClass(mode)] = true
		// the screen is rendered before every command
		h := []int{1, 3, 8, 10, 24, 50, 80}[r.Intn(7)]
		if r.Intn(3) == 0 {
			h = 1 + r.Intn(80)
		}
		res := s.Render(h)
		c.Eval(1)
		if res.Panicked {
			c.Fail("C22.render.panic", map[string]string{"site": mon.PanicSite(res.Stack), "mode": modeClass(mode)}, "rendering the screen (%d rows) panicked: %v\n%s\n%s", h, res.PanicVal, desc(), res.Stack)
			return
		}
		// steer the session into the other modes now and then
		var line string
		switch x := r.Intn(100); {
		case x < 6 && mode == "app":
			line = []string{"e", "entry", "goto " + fmt.Sprint(r.Intn(listingLen(s)+2)), "emulate"}[r.Intn(4)]
		case x < 14 && mode == "emulate":
			line = []string{"s", "memory memory", "m memory", "step", "mem nosuch", "ms", "regmod x8"}[r.Intn(7)]
		case x < 20 && strings.HasPrefix(mode, "memview"):
			line = []string{"a 0x20000", "address 0x1000" + fmt.Sprint(r.Intn(9)), "d 1", "g 0", "u 1"}[r.Intn(5)]
		case x < 34 && mode == "app":
			line = listingAware(r, s)
		default:
			line = uichk.GenLine(r, listingLen(s))
		}
		if s.UI.VerifDepth() == 1 && (strings.TrimSpace(line) == "q" || strings.TrimSpace(line) == "quit") && n < 30 {
			continue // do not leave the application early
		}
		must, why := uichk.MustError(mode, line)
		hist = append(hist, line)
		// occasional scripted answers to value prompts
		var answers []string
		if r.Intn(4) == 0 {
			answers = []string{[]string{"5", "0x10", "255", "abc", "", "0b11", "1_0", "7",
				// values on and around the moduli of the prompt widths, negative and huge
				"-256", "-512", "-65536", "-4294967296", "-8589934592", "-18446744073709551616", "-0x30000000000000000",
				"-0x1000000", "-1", "-128", "-0", "256", "18446744073709551616", "18446744073709551615", "-9223372036854775808",
				"0xffffffffffffffffffffffffffffffffff", "-0b1" + strings.Repeat("0", 64), "0o7", "-08", "--1", "0x", "-"}[r.Intn(30)]}
		}
		res = s.Exec(line, answers...)
		c.Eval(1)
		if res.Panicked {
			if strings.Contains(fmt.Sprint(res.PanicVal), "runaway input") {
				c.Fail("C22.runaway-input", map[string]string{"mode": modeClass(mode)}, "the command %q keeps reading input lines forever\n%s", line, desc())
				return
			}
			feat := map[string]string{"site": mon.PanicSite(res.Stack), "mode": modeClass(mode)}
			if topOfMemoryPanic(feat["site"], fmt.Sprint(res.PanicVal)) {
				// the recorded limitation of memory.Sparse (access touching 2^64-1 or
				// wrapping around) reached by a random session, e.g. through a register
				// answered with -1: same features as the fixed top-of-memory sessions
				feat = map[string]string{"workload": "top-of-memory", "site": feat["site"]}
			}
			c.Fail("C22.command.panic", feat, "the line %q crashed the UI: %v\n%s\n%s", line, res.PanicVal, desc(), res.Stack)
			return
		}
		if must {
			rejected++
			if !strings.Contains(res.Out, "error:") {
				c.Fail("C22.no-error-message", map[string]string{"why": why, "mode": modeClass(mode)}, "the line %q cannot be a command (%s) but was not answered with an error message; output %q\n%s", line, why, clip(res.Out), desc())
				return
			}
		}
		if res.Err != nil {
			if res.Err == consoleui.ErrQuit || strings.Contains(res.Err.Error(), "exit required") {
				c.Count("sessions_quit", 1)
				break
			}
			c.Fail("C22.command.fatal-error", map[string]string{"mode": modeClass(mode)}, "the line %q ended the UI with error %v\n%s", line, res.Err, desc())
			return
		}
	}
	c.Count("sessions", 1)
	for m := range modes {
		c.Count("sessions_in_"+m, 1)
	}
	c.Count("rejected_lines", rejected)
	if len(modes) >= 2 && rejected >= 5 {
		c.Nontrivial(strings.Join(hist, "\n"))
	}
	if c.WantSample() && len(hist) >= 8 {
		c.Sample(hist[:8])
	}
}

// listingAware produces commands that are valid for the current listing: block moves
// (both arguments are header lines, forwards and backwards), instruction moves inside one
// block, and bounds/goto/find/entrypoint on lines near the end - the commands whose
// bookkeeping survives from one command to the next.
func listingAware(r *rand.Rand, s *uichk.Session) string {
	ls, _, ok := disassemble.VerifListing(s.UI.VerifMode())
	if !ok || len(ls) == 0 {
		return "entrypoint"
	}
	var heads, ins []int
	for i, l := range ls {
		switch {
		case strings.HasPrefix(strings.TrimSpace(l.Text), "Block"):
			heads = append(heads, i)
		case strings.TrimSpace(l.Text) != "":
			ins = append(ins, i)
		}
	}
	pick := func(xs []int) int {
		if len(xs) == 0 {
			return r.Intn(len(ls))
		}
		if r.Intn(3) == 0 {
			return xs[len(xs)-1-r.Intn(minInt(3, len(xs)))] // near the end
		}
		return xs[r.Intn(len(xs))]
	}
	switch r.Intn(8) {
	case 0, 1, 2:
		return fmt.Sprintf("move %d %d", pick(heads), pick(heads))
	case 3, 4:
		a := pick(ins)
		return fmt.Sprintf("move %d %d", a, a+r.Intn(5)-2)
	case 5:
		return fmt.Sprintf("bounds %d", pick(ins))
	case 6:
		return fmt.Sprintf("goto %d", pick(ins))
	}
	return []string{"entrypoint", "find Block", "find x1", "down 1", "up 1"}[r.Intn(5)]
}

func minInt(a, b int) int {
	if a < b {
		return a
	}
	return b
}

// topOfMemory replays the recorded limitation of the sparse memory (C03 finding)
// through the UI: emulating a store to the last byte of the address space.
func topOfMemory(c *mon.Case, which int) {
	uichk.Init()
	prog := emuchk.TopProgram(which)
	dcode, img, err := uichk.BuildCode(prog, emuchk.Code)
	if err != nil {
		c.Fail("C22.harness", nil, "top-of-memory program rejected: %v", err)
		return
	}
	ui, err := uichk.NewUI(dcode, img)
	if err != nil {
		c.Fail("C22.harness", nil, "%v", err)
		return
	}
	s := &uichk.Session{UI: ui, Code: dcode, Prog: prog}
	for _, line := range []string{"goto 1", "e", "s", "s", "s", "s"} {
		res := s.Exec(line)
		c.Eval(1)
		if res.Panicked {
			c.Fail("C22.command.panic", map[string]string{"workload": "top-of-memory", "site": mon.PanicSite(res.Stack)}, "the line %q crashed the UI: %v\nprogram:\n%s\n%s", line, res.PanicVal, prog.Listing(), res.Stack)
			return
		}
	}
	c.Count("top_of_memory_session_survived", 1)
}

var wrapRe = regexp.MustCompile(`^low cannot be greater than high: ([0-9]+) > ([0-9]+)$`)

// topOfMemoryPanic recognises the known limitation by call site and evidence: the
// interval tree of memory.Sparse refuses a range [low, high) whose end wrapped around
// 2^64 (high = low + width mod 2^64 < low), i.e. an access touching the last byte of the
// address space or wrapping around it.
func topOfMemoryPanic(site, msg string) bool {
	if site != "mltwist/internal/state/memory.(*Sparse).Store" && site != "mltwist/internal/state/memory.(*Sparse).Missing" {
		return false
	}
	m := wrapRe.FindStringSubmatch(msg)
	if m == nil {
		return false
	}
	lo, err1 := strconv.ParseUint(m[1], 10, 64)
	hi, err2 := strconv.ParseUint(m[2], 10, 64)
	return err1 == nil && err2 == nil && lo > hi && lo >= 1<<64-256 && hi < 256
}

func modeClass(n string) string {
	if strings.HasPrefix(n, "memview") {
		return "memview"
	}
	return n
}

func clip(s string) string {
	if len(s) > 300 {
		return s[:300] + "..."
	}
	return s
}

func validFile(r *rand.Rand) []byte {
	prog := emuchk.Generate(r, 4+r.Intn(30))
	code := prog.Bytes()
	f := &elfgen.File{Class64: true, Type: 2, Machine: 243, Entry: emuchk.Code}
	data := make([]byte, 32)
	r.Read(data)
	f.Segs = []elfgen.Seg{
		{Type: elfgen.PTLoad, Flags: 5, Vaddr: emuchk.Code, Filesz: uint64(len(code)), Memsz: uint64(len(code)), Data: code},
		{Type: elfgen.PTLoad, Flags: 6, Vaddr: emuchk.Data, Filesz: 32, Memsz: 64, Data: data},
	}
	f.Secs = []elfgen.Sec{{Name: ".text", Type: elfgen.SHTProgbits, Flags: elfgen.SHFAlloc | elfgen.SHFExec, Addr: emuchk.Code, Size: uint64(len(code)), Data: code}}
	bs, _ := f.Bytes()
	return bs
}

func ptySession(c *mon.Case) {
	r := c.Rng
	dir := filepath.Join(os.Getenv("VERIF_DIR"), "work", fmt.Sprintf("c22-files-%d", os.Getpid()))
	os.MkdirAll(dir, 0o755)
	path := filepath.Join(dir, fmt.Sprintf("s-%d.elf", c.Idx))
	defer os.Remove(path)
	if err := os.WriteFile(path, validFile(r), 0o644); err != nil {
		c.Fail("C22.harness", nil, "write: %v", err)
		return
	}
	var script []string
	for i := 0; i < 25; i++ {
		l := uichk.GenLine(r, 30)
		if strings.ContainsAny(l, "\x00\x03\x04\x1a\x1c\x15\x17\x7f\x11\x13") {
			continue // terminal control characters would be eaten by the line discipline
		}
		if t := strings.TrimSpace(l); t == "q" || t == "quit" {
			continue
		}
		script = append(script, l)
		if r.Intn(5) == 0 {
			script = append(script, []string{"e", "s", "memory memory", "d 2", "entry"}[r.Intn(5)])
		}
	}
	input := strings.Join(script, "\n") + "\n" + strings.Repeat("0\n", 40) + strings.Repeat("q\n\n", 15)
	rows := []int{24, 8, 10, 40, 80, 12, 5}[r.Intn(7)]
	sh := `ulimit -v 2097152; exec "$0" "$@"`
	res, err := ptyx.Run([]string{"/bin/sh", "-c", sh, binFile(), path}, rows, 100, []byte(input), 20*time.Second,
		[]string{"PATH=/usr/bin:/bin", "TERM=xterm", "GOTRACEBACK=single"})
	c.Eval(1)
	if err != nil {
		c.Fail("C22.harness", nil, "pty run failed: %v", err)
		return
	}
	out := res.Output
	tail := string(out)
	if len(tail) > 2500 {
		tail = tail[len(tail)-2500:]
	}
	q := make([]string, len(script))
	for i, x := range script {
		q[i] = fmt.Sprintf("%q", x)
	}
	switch {
	case res.TimedOut:
		c.Count("pty_sessions_hung", 1)
		return
	case res.ExitCode == -1:
		c.Fail("C22.pty.signal", nil, "mltwist was killed by signal %s (rows %d); script: %s\n%s", res.Signal, rows, strings.Join(q, " "), tail)
		return
	case bytes.Contains(out, []byte("panic:")) || bytes.Contains(out, []byte("fatal error:")) || bytes.Contains(out, []byte("goroutine 1 [")):
		c.Fail("C22.pty.crash", nil, "mltwist crashed (exit %d, rows %d); script: %s\n%s", res.ExitCode, rows, strings.Join(q, " "), tail)
		return
	case res.ExitCode != 0 && !bytes.Contains(out, []byte("mltwist:")):
		c.Fail("C22.pty.exit", nil, "mltwist exited with status %d without a message (rows %d)\n%s", res.ExitCode, rows, tail)
		return
	}
	c.Count("pty_sessions_completed", 1)
	c.Nontrivial("pty|" + input)
}

func main() {
	mon.Main(mon.Spec{
		Prop:        "C22",
		Rule:        "case = session of 40 input lines on a UI over a generated program: grammar-aware lines (every command key of every mode, in-range/boundary/negative/huge/non-numeric arguments, too few/many arguments, runs of spaces and tabs, whitespace-only and empty lines, unknown commands, regex metacharacters, very long tokens, random printable and UTF-8 text), steered now and then into the emulator and memory-view modes, the screen rendered at a random height before every command; the first 64 (thorough 3000) cases instead run 25 such lines against the production binary under a pty; non-trivial = in-process session that visited >=2 modes and contained >=5 lines that cannot be commands, or a completed pty session; distinct by line sequence",
		Explanation: "oracle (in-process, through the real processCommand with a line feeder that hands out exactly one line per read and then an endless supply of '0'): no panic; a line that by my own grammar cannot be a command of the current mode (unknown key, too few arguments, unparsable or negative number) must be answered with 'error:' text; no command may end the UI except quit. Oracle (pty): the production binary must not die by signal or Go crash and exits 0 or with a 'mltwist:' message; hung sessions are counted, not judged",
		Assumptions: []string{"UI driven through verif hooks in tier A; tier B covers Run/view.Print/main on the binary built with the guard off", "value prompts are answered with small numbers so that the recorded top-of-memory finding of C03 is not re-triggered"},
		Cases: func(t string) int {
			if t == "thorough" {
				return nPty(t) + 300000
			}
			return nPty(t) + 15000
		},
		Floor: func(t string) int {
			if t == "thorough" {
				return 30000
			}
			return 1200
		},
		ParentSetup:    parentSetup,
		RequiredCounts: []string{"sessions", "sessions_in_app", "sessions_in_emulate", "sessions_in_memview", "rejected_lines", "pty_sessions_completed"},
		Run:            run,
	})
}
