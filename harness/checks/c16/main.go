// C16 – layered memory reads through to its base. Oracle: two shadow byte maps.
package main

import (
	"fmt"

	"mltwist/internal/state/memory"
	"mltwist/pkg/expr"
	"mltwist/pkg/model"
	"mltwist/verifh/gen"
	"mltwist/verifh/memchk"
	"mltwist/verifh/mon"
	"mltwist/verifh/refir"
)

var bases = []uint64{0, 0x1000, 1<<32 - 24, 1<<63 - 24, 1 << 63, 0xffffffff80000000, 1<<64 - 64}

type blk struct {
	begin uint64
	bs    []byte
}

func (b blk) Begin() model.Addr { return model.Addr(b.begin) }
func (b blk) Bytes() []byte     { return b.bs }

func fit(addr uint64, w int) int {
	if room := ^uint64(0) - addr; uint64(w) > room {
		return int(room)
	}
	return w
}

func clip(s string) string {
	if len(s) > 160 {
		return s[:160] + "..."
	}
	return s
}

func run(c *mon.Case) {
	r := c.Rng
	base := bases[r.Intn(len(bases))]
	win := 48
	big := r.Intn(6) == 0
	if big {
		// a wide window: reads of up to 255 bytes composed of many stored values, pieces
		// beginning 32 and more bytes into the read
		win = 280
		if base > 1<<63 {
			base = 1<<64 - 600 // window + widest access stay below 2^64
		}
		c.Count("wide_window_histories", 1)
	}
	lw := func(n int) int { // width of a read
		if big && r.Intn(2) == 0 {
			return 33 + r.Intn(223)
		}
		return 1 + r.Intn(n)
	}
	var hist []string
	g := gen.NewExprGen(r)
	g.Gadgets, g.WidthGadgets = 5, 5

	// ---- base layer
	baseSh := memchk.NewShadow(nil)
	var baseMem memory.Memory
	kind := []string{"bytes", "sparse-const", "sparse-symbolic", "overlay"}[r.Intn(4)]
	switch kind {
	case "bytes", "overlay":
		var blocks []memory.ByteBlock
		occupied := map[uint64]bool{}
		for i, n := 0, 1+r.Intn(5); i < n; i++ {
			b := blk{begin: base + uint64(r.Intn(win)), bs: gen.ConstBytes(r, 1+r.Intn(8))}
			if big && i < 2 { // large base blocks, so that wide reads can succeed
				b.bs = gen.ConstBytes(r, 64+r.Intn(150))
			}
			clash := false
			for j := range b.bs {
				if occupied[b.begin+uint64(j)] {
					clash = true
				}
			}
			if clash {
				continue
			}
			for j := range b.bs {
				occupied[b.begin+uint64(j)] = true
			}
			blocks = append(blocks, b)
			baseSh.Store(b.begin, expr.NewConst(b.bs, expr.Width(len(b.bs))), len(b.bs))
			hist = append(hist, fmt.Sprintf("base-block(%#x,%x)", b.begin, b.bs))
		}
		m, err := memory.NewBytes(blocks)
		if err != nil {
			c.Fail("C16.base.newbytes", nil, "NewBytes rejected disjoint blocks: %v (%v)", err, hist)
			return
		}
		baseMem = m
		if kind == "overlay" {
			// the base is itself a layered memory (three levels in total), written
			// through its own Store before it becomes a base
			inner := memory.NewOverlay(m, memory.NewSparse())
			for i, n := 0, 1+r.Intn(4); i < n; i++ {
				addr := base + uint64(r.Intn(win))
				w := int(gen.SmallWidth(r))
				var ex expr.Expr = gen.Const(r, expr.Width(w))
				if r.Intn(2) == 0 {
					ex = g.Expr(2)
				}
				inner.Store(model.Addr(addr), ex, expr.Width(w))
				baseSh.Store(addr, ex, w)
				hist = append(hist, fmt.Sprintf("base-overlay-store(%#x,%s,%d)", addr, clip(refir.String(ex)), w))
			}
			baseMem = inner
		}
	default:
		m := memory.NewSparse()
		for i, n := 0, 1+r.Intn(6); i < n; i++ {
			addr := base + uint64(r.Intn(win))
			w := int(gen.SmallWidth(r))
			if big && i < 2 {
				w = 64 + r.Intn(150)
			}
			var ex expr.Expr = gen.Const(r, expr.Width(w))
			if kind == "sparse-symbolic" && r.Intn(3) != 0 {
				ex = g.Expr(2)
			}
			m.Store(model.Addr(addr), ex, expr.Width(w))
			baseSh.Store(addr, ex, w)
			hist = append(hist, fmt.Sprintf("base-store(%#x,%s,%d)", addr, clip(refir.String(ex)), w))
		}
		baseMem = m
	}
	envs := refir.Envs(uint64(c.Idx)+uint64(c.Seed)<<32, 3)
	feat := map[string]string{"base": kind}

	// ---- overlay
	sh := memchk.NewShadow(baseSh)
	upper := memory.NewSparse()
	if r.Intn(4) == 0 {
		// an upper layer that already holds values when the layered memory is built
		for i, n := 0, 1+r.Intn(3); i < n; i++ {
			addr := base + uint64(r.Intn(win))
			w := int(gen.SmallWidth(r))
			var ex expr.Expr = gen.Const(r, expr.Width(w))
			upper.Store(model.Addr(addr), ex, expr.Width(w))
			sh.Store(addr, ex, w)
			hist = append(hist, fmt.Sprintf("upper-prestore(%#x,%s,%d)", addr, clip(refir.String(ex)), w))
		}
		c.Count("prepopulated_upper_layers", 1)
	}
	ov := memory.NewOverlay(baseMem, upper)
	k := &memchk.Checker{C: c, Prefix: "C16", Mem: ov, Sh: sh, Envs: envs, Hist: &hist, Feat: feat}
	probes := 6
	if !c.Quick() {
		probes = 10
	}
	if !k.Blocks() {
		return
	}
	nops := 30
	if big {
		nops = 70 // many small upper-layer values inside one wide read
	}
	for op := 0; op < nops && !c.Failed(); op++ {
		switch x := r.Intn(100); {
		case x < 45:
			w := int(gen.SmallWidth(r))
			if r.Intn(3) == 0 {
				w = 1 + r.Intn(3) // small writes leave several gaps inside one read
			}
			addr := base + uint64(r.Intn(win))
			var ex expr.Expr
			switch r.Intn(3) {
			case 0:
				ex = gen.Const(r, expr.Width(w))
			case 1:
				ex = gen.Const(r, gen.SmallWidth(r))
			default:
				ex = g.Expr(2)
			}
			hist = append(hist, fmt.Sprintf("store(%#x,%s,%d)", addr, clip(refir.String(ex)), w))
			if !k.Store(addr, ex, w) {
				return
			}
			c.Count("stores", 1)
			if !k.Blocks() {
				return
			}
		case x < 85:
			addr := base + uint64(r.Intn(win))
			if !k.Load(addr, fit(addr, lw(24))) {
				return
			}
		default:
			addr := base + uint64(r.Intn(win))
			if !k.Missing(addr, fit(addr, 1+r.Intn(30))) {
				return
			}
			c.Count("missing_queries", 1)
		}
		for i := 0; i < probes; i++ {
			addr := base + uint64(r.Intn(win))
			if !k.Load(addr, fit(addr, lw(14))) {
				return
			}
		}
		if ma := base + uint64(r.Intn(win)); !k.Missing(ma, fit(ma, 1+r.Intn(20))) {
			return
		}
	}
	if !c.Quick() {
		for off := 0; off < win; off++ {
			for w := 1; w <= 12; w++ {
				if !k.Load(base+uint64(off), w) {
					return
				}
			}
		}
	}
	if !k.Canaries() {
		return
	}
	// the base must be unchanged: blocks and every byte
	kb := &memchk.Checker{C: c, Prefix: "C16.base-changed", Mem: baseMem, Sh: baseSh, Envs: envs, Hist: &hist, Feat: feat}
	if !kb.Blocks() {
		return
	}
	for off := -2; off < win+15; off++ {
		a := base + uint64(off)
		if off < 0 && base == 0 {
			continue
		}
		if !kb.Load(a, 1) {
			return
		}
	}
	// the accessors must return the layers
	if ov.Base() != baseMem {
		c.Fail("C16.accessor", feat, "Overlay.Base() is not the base memory")
	}
	c.Count("loads_ok", k.LoadsOK)
	c.Count("loads_missing", k.LoadsMissing)
	c.Count("loads_nontrivial", k.LoadsNontrivial)
	c.Count("histories_"+kind, 1)
	// two-layer loads
	if k.LoadsNontrivial > 0 {
		c.Nontrivial(fmt.Sprint(hist))
	}
	if c.WantSample() && len(hist) > 6 {
		c.Sample(hist[:6])
	}
}

func main() {
	mon.Main(mon.Spec{
		Prop:        "C16",
		Rule:        "case = base memory (Bytes / Sparse with constants / Sparse with symbolic values / itself an Overlay(Bytes,Sparse) written through its own Store) + a quarter of the upper layers already holding values + history of 30 stores/loads/missing queries on an Overlay whose upper layer is a Sparse memory, over a 48-byte window with small writes so that reads see several gaps in both layers; non-trivial = history with a successful load combining >=2 stored values or both layers",
		Explanation: "oracle: two shadow byte maps (upper over base); load ok iff every byte is in some layer, value = upper byte if written else base byte on 5 valuations; Missing = bytes in neither layer; Blocks = union; at the end the base memory's Blocks and every byte are re-read and compared with the base shadow (base never modified)",
		Assumptions: []string{"refir reference evaluator", "upper layer is memory.Sparse (as in cmd/mltwist)"},
		Cases: func(t string) int {
			if t == "thorough" {
				return 150000
			}
			return 12000
		},
		Floor: func(t string) int {
			if t == "thorough" {
				return 50000
			}
			return 2000
		},
		RequiredCounts: []string{"wide_window_histories", "loads_nontrivial", "loads_missing", "stores", "histories_bytes", "histories_sparse-const", "histories_sparse-symbolic", "histories_overlay", "prepopulated_upper_layers"},
		Run:            run,
	})
}
