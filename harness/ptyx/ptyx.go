// Package ptyx runs a program under a pseudo terminal (the mltwist binary needs a
// tty on fd 0 for terminal.GetSize).
package ptyx

import (
	"bytes"
	"fmt"
	"io"
	"os"
	"os/exec"
	"syscall"
	"time"

	"golang.org/x/sys/unix"
)

// Result of a run.
type Result struct {
	Output   []byte
	ExitCode int  // -1 if killed by a signal
	Signal   string
	TimedOut bool
}

// Run starts argv under a pty with the given window size, writes input to it and
// waits for the exit (or kills the process after timeout).
func Run(argv []string, rows, cols int, input []byte, timeout time.Duration, env []string) (Result, error) {
	var res Result
	ptm, err := os.OpenFile("/dev/ptmx", os.O_RDWR|syscall.O_NOCTTY, 0)
	if err != nil {
		return res, err
	}
	defer ptm.Close()
	fd := int(ptm.Fd())
	if err := unix.IoctlSetPointerInt(fd, unix.TIOCSPTLCK, 0); err != nil {
		return res, fmt.Errorf("unlockpt: %w", err)
	}
	n, err := unix.IoctlGetInt(fd, unix.TIOCGPTN)
	if err != nil {
		return res, fmt.Errorf("ptsname: %w", err)
	}
	pts, err := os.OpenFile(fmt.Sprintf("/dev/pts/%d", n), os.O_RDWR|syscall.O_NOCTTY, 0)
	if err != nil {
		return res, err
	}
	if err := unix.IoctlSetWinsize(fd, unix.TIOCSWINSZ, &unix.Winsize{Row: uint16(rows), Col: uint16(cols)}); err != nil {
		pts.Close()
		return res, fmt.Errorf("winsize: %w", err)
	}
	cmd := exec.Command(argv[0], argv[1:]...)
	cmd.Stdin, cmd.Stdout, cmd.Stderr = pts, pts, pts
	cmd.SysProcAttr = &syscall.SysProcAttr{Setsid: true, Setctty: true, Ctty: 0}
	cmd.Env = env
	if err := cmd.Start(); err != nil {
		pts.Close()
		return res, err
	}
	pts.Close()
	var out bytes.Buffer
	done := make(chan struct{})
	go func() {
		buf := make([]byte, 32<<10)
		for {
			k, err := ptm.Read(buf)
			if k > 0 && out.Len() < 4<<20 {
				out.Write(buf[:k])
			}
			if err != nil {
				break
			}
		}
		close(done)
	}()
	go func() {
		// feed in slices so that the pty buffer never blocks the child forever
		for off := 0; off < len(input); {
			end := off + 512
			if end > len(input) {
				end = len(input)
			}
			if _, err := ptm.Write(input[off:end]); err != nil {
				return
			}
			off = end
		}
	}()
	waitc := make(chan error, 1)
	go func() { waitc <- cmd.Wait() }()
	select {
	case err = <-waitc:
	case <-time.After(timeout):
		res.TimedOut = true
		cmd.Process.Kill()
		err = <-waitc
	}
	// the master returns EIO once the slave side is closed
	select {
	case <-done:
	case <-time.After(2 * time.Second):
	}
	res.Output = out.Bytes()
	if ee, ok := err.(*exec.ExitError); ok {
		ws := ee.Sys().(syscall.WaitStatus)
		if ws.Signaled() {
			res.ExitCode, res.Signal = -1, ws.Signal().String()
		} else {
			res.ExitCode = ws.ExitStatus()
		}
	} else if err != nil && err != io.EOF {
		return res, err
	}
	return res, nil
}
