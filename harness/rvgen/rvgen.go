// Package rvgen builds RISC-V instruction words and product parsers for the checks.
package rvgen

import (
	"math/rand"

	"mltwist/internal/riscv"
	"mltwist/verifh/refrv"
)

// Parser builds the product parser of a configuration.
func Parser(c refrv.Cfg) riscv.Parser {
	v := riscv.Variant32
	if c.XLEN == 64 {
		v = riscv.Variant64
	}
	var exts []riscv.Extension
	if c.M {
		exts = append(exts, riscv.ExtM)
	}
	if c.A {
		exts = append(exts, riscv.ExtA)
	}
	return riscv.NewParser(v, exts...)
}

// ParserOrder builds the parser of a configuration with the extensions listed in
// descending order (A before M); the configuration is a set, the order must not matter.
func ParserOrder(c refrv.Cfg, reversed bool) riscv.Parser {
	if !reversed {
		return Parser(c)
	}
	v := riscv.Variant32
	if c.XLEN == 64 {
		v = riscv.Variant64
	}
	var exts []riscv.Extension
	if c.A {
		exts = append(exts, riscv.ExtA)
	}
	if c.M {
		exts = append(exts, riscv.ExtM)
	}
	return riscv.NewParser(v, exts...)
}

// LE returns the little-endian bytes of a word.
func LE(w uint32) []byte { return []byte{byte(w), byte(w >> 8), byte(w >> 16), byte(w >> 24)} }

var regChoices = []uint32{0, 1, 2, 31}

func reg(r *rand.Rand) uint32 {
	if r.Intn(2) == 0 {
		return regChoices[r.Intn(len(regChoices))]
	}
	return uint32(r.Intn(32))
}

// Imm12 draws a 12-bit signed immediate biased to boundaries.
func Imm12(r *rand.Rand) int64 {
	switch r.Intn(10) {
	case 0:
		return 0
	case 1:
		return 1
	case 2:
		return -1
	case 3:
		return -2048
	case 4:
		return 2047
	case 5:
		return int64(r.Intn(16)) - 8
	case 6:
		return []int64{1024, -1024, 2046, -2047, 255, 256, -256}[r.Intn(7)]
	}
	return int64(r.Intn(4096)) - 2048
}

func imm13(r *rand.Rand) int64 { // branch offsets, even
	switch r.Intn(8) {
	case 0:
		return 0
	case 1:
		return 4
	case 2:
		return -4
	case 3:
		return -4096
	case 4:
		return 4094
	case 5:
		return 2
	}
	return (int64(r.Intn(4096)) - 2048) * 2
}

func imm21(r *rand.Rand) int64 {
	switch r.Intn(8) {
	case 0:
		return 0
	case 1:
		return 4
	case 2:
		return -4
	case 3:
		return -(1 << 20)
	case 4:
		return 1<<20 - 2
	case 5:
		return 2
	}
	return (int64(r.Intn(1<<20)) - 1<<19) * 2
}

func immU(r *rand.Rand) int64 {
	switch r.Intn(6) {
	case 0:
		return 0
	case 1:
		return 0x1000
	case 2:
		return int64(int32(-0x80000000))
	case 3:
		return 0x7ffff000
	case 4:
		return int64(int32(-0x1000))
	}
	return int64(int32(r.Uint32() & 0xfffff000))
}

var csrChoices = []uint32{0, 1, 0x7ff, 0x800, 0xfff, 0x300, 0xc00}

// Word draws a word of definition d with boundary-biased operand fields.
func Word(r *rand.Rand, d refrv.Def) uint32 {
	w := d.Word(r.Uint32())
	rd, rs1, rs2 := reg(r), reg(r), reg(r)
	switch r.Intn(8) {
	case 0:
		rs1 = rd
	case 1:
		rs2 = rs1
	case 2:
		rs1, rs2 = rd, rd
	case 3:
		rs2 = rd
	}
	w = d.SetBits(w, 7, 5, rd)
	w = d.SetBits(w, 15, 5, rs1)
	w = d.SetBits(w, 20, 5, rs2)
	switch d.Fmt {
	case refrv.FmtI, refrv.FmtLoad:
		w = refrv.EncImmI(w, Imm12(r))
	case refrv.FmtS:
		w = refrv.EncImmS(w, Imm12(r))
		w = d.SetBits(w, 20, 5, rs2)
	case refrv.FmtB:
		w = refrv.EncImmB(w, imm13(r))
	case refrv.FmtU:
		w = refrv.EncImmU(w, immU(r))
	case refrv.FmtJ:
		w = refrv.EncImmJ(w, imm21(r))
	case refrv.FmtShift:
		w = d.SetBits(w, 20, 6, uint32(r.Intn(64)))
	case refrv.FmtCSR, refrv.FmtCSRI:
		n := csrChoices[r.Intn(len(csrChoices))]
		if r.Intn(3) == 0 {
			n = uint32(r.Intn(4096))
		}
		w = w&0x000fffff | n<<20
		if d.Fmt == refrv.FmtCSRI {
			w = d.SetBits(w, 15, 5, uint32(r.Intn(32)))
		}
	}
	// keep the word inside its own definition
	return w&^d.Mask | d.Match
}

// RegValue draws an XLEN-bit register content from boundary classes.
func RegValue(r *rand.Rand, xlen int) uint64 {
	var v uint64
	switch r.Intn(14) {
	case 0:
		v = 0
	case 1:
		v = 1
	case 2:
		v = ^uint64(0)
	case 3:
		v = 1 << uint(xlen-1) // MIN
	case 4:
		v = 1<<uint(xlen-1) - 1 // MAX
	case 5:
		v = 0x7f7f7f7f7f7f7f7f
	case 6:
		v = 0x8080808080808080
	case 7:
		v = uint64(r.Intn(64))
	case 8:
		v = 0x80000000 // 32-bit sign boundary inside 64
	case 9:
		v = 0xffffffff
	case 10:
		v = uint64(int64(-1 - r.Intn(40)))
	default:
		v = r.Uint64()
	}
	if xlen == 32 {
		v &= 0xffffffff
	}
	return v
}
