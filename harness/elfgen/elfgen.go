// Package elfgen writes ELF files from a small model (own writer, no debug/elf) and
// computes what a faithful loader must produce for them.
package elfgen

import (
	"encoding/binary"
	"math/rand"
	"sort"
)

const (
	PTLoad      = 1
	SHTNull     = 0
	SHTProgbits = 1
	SHTStrtab   = 3
	SHTNobits   = 8
	SHFWrite    = 1
	SHFAlloc    = 2
	SHFExec     = 4
)

type Seg struct {
	Type                 uint32
	Flags                uint32
	Vaddr, Filesz, Memsz uint64
	Data                 []byte // Filesz bytes are taken from Data (padded with 0xEE filler beyond)
	off                  uint64
}

type Sec struct {
	Name        string
	Type        uint32
	Flags, Addr uint64
	Size        uint64
	Data        []byte
	off         uint64
}

type File struct {
	Class64   bool
	BigEndian bool
	Type      uint16
	Machine   uint16
	Entry     uint64
	Segs      []Seg
	Secs      []Sec
}

func (f *File) bo() binary.ByteOrder {
	if f.BigEndian {
		return binary.BigEndian
	}
	return binary.LittleEndian
}

// Bytes serialises the file. Layout: header, program headers, segment data,
// section data, shstrtab, section headers. Marks holds structural boundaries.
func (f *File) Bytes() (out []byte, marks []int) {
	bo := f.bo()
	ehsize, phsize, shsize := 52, 32, 40
	if f.Class64 {
		ehsize, phsize, shsize = 64, 56, 64
	}
	phoff := ehsize
	cur := phoff + phsize*len(f.Segs)
	marks = append(marks, 16, ehsize, cur)
	for i := range f.Segs {
		s := &f.Segs[i]
		s.off = uint64(cur)
		n := int(s.Filesz)
		if n > len(s.Data) {
			n = len(s.Data)
		}
		cur += n
		marks = append(marks, cur)
	}
	for i := range f.Secs {
		s := &f.Secs[i]
		s.off = uint64(cur)
		if s.Type != SHTNobits {
			cur += len(s.Data)
		}
		marks = append(marks, cur)
	}
	// string table
	strtab := []byte{0}
	nameOff := make([]uint32, len(f.Secs))
	for i, s := range f.Secs {
		nameOff[i] = uint32(len(strtab))
		strtab = append(strtab, []byte(s.Name)...)
		strtab = append(strtab, 0)
	}
	shstrName := uint32(len(strtab))
	strtab = append(strtab, []byte(".shstrtab\x00")...)
	strOff := cur
	cur += len(strtab)
	marks = append(marks, cur)
	shoff := cur
	nsec := len(f.Secs) + 2 // null + sections + shstrtab
	total := shoff + nsec*shsize
	out = make([]byte, total)
	// ident
	copy(out, []byte{0x7f, 'E', 'L', 'F'})
	out[4] = 1
	if f.Class64 {
		out[4] = 2
	}
	out[5] = 1
	if f.BigEndian {
		out[5] = 2
	}
	out[6] = 1
	if f.Class64 {
		bo.PutUint16(out[16:], f.Type)
		bo.PutUint16(out[18:], f.Machine)
		bo.PutUint32(out[20:], 1)
		bo.PutUint64(out[24:], f.Entry)
		bo.PutUint64(out[32:], uint64(phoff))
		bo.PutUint64(out[40:], uint64(shoff))
		bo.PutUint16(out[52:], uint16(ehsize))
		bo.PutUint16(out[54:], uint16(phsize))
		bo.PutUint16(out[56:], uint16(len(f.Segs)))
		bo.PutUint16(out[58:], uint16(shsize))
		bo.PutUint16(out[60:], uint16(nsec))
		bo.PutUint16(out[62:], uint16(nsec-1))
	} else {
		bo.PutUint16(out[16:], f.Type)
		bo.PutUint16(out[18:], f.Machine)
		bo.PutUint32(out[20:], 1)
		bo.PutUint32(out[24:], uint32(f.Entry))
		bo.PutUint32(out[28:], uint32(phoff))
		bo.PutUint32(out[32:], uint32(shoff))
		bo.PutUint16(out[40:], uint16(ehsize))
		bo.PutUint16(out[42:], uint16(phsize))
		bo.PutUint16(out[44:], uint16(len(f.Segs)))
		bo.PutUint16(out[46:], uint16(shsize))
		bo.PutUint16(out[48:], uint16(nsec))
		bo.PutUint16(out[50:], uint16(nsec-1))
	}
	if len(f.Segs) == 0 {
		// keep phoff pointing at a valid place; debug/elf accepts phnum=0
	}
	for i, s := range f.Segs {
		p := out[phoff+i*phsize:]
		if f.Class64 {
			bo.PutUint32(p[0:], s.Type)
			bo.PutUint32(p[4:], s.Flags)
			bo.PutUint64(p[8:], s.off)
			bo.PutUint64(p[16:], s.Vaddr)
			bo.PutUint64(p[24:], s.Vaddr)
			bo.PutUint64(p[32:], s.Filesz)
			bo.PutUint64(p[40:], s.Memsz)
			bo.PutUint64(p[48:], 1)
		} else {
			bo.PutUint32(p[0:], s.Type)
			bo.PutUint32(p[4:], uint32(s.off))
			bo.PutUint32(p[8:], uint32(s.Vaddr))
			bo.PutUint32(p[12:], uint32(s.Vaddr))
			bo.PutUint32(p[16:], uint32(s.Filesz))
			bo.PutUint32(p[20:], uint32(s.Memsz))
			bo.PutUint32(p[24:], s.Flags)
			bo.PutUint32(p[28:], 1)
		}
		n := int(s.Filesz)
		if n > len(s.Data) {
			n = len(s.Data)
		}
		copy(out[s.off:], s.Data[:n])
	}
	for _, s := range f.Secs {
		if s.Type != SHTNobits {
			copy(out[s.off:], s.Data)
		}
	}
	copy(out[strOff:], strtab)
	putSh := func(idx int, name uint32, typ uint32, flags, addr, off, size uint64) {
		p := out[shoff+idx*shsize:]
		if f.Class64 {
			bo.PutUint32(p[0:], name)
			bo.PutUint32(p[4:], typ)
			bo.PutUint64(p[8:], flags)
			bo.PutUint64(p[16:], addr)
			bo.PutUint64(p[24:], off)
			bo.PutUint64(p[32:], size)
			bo.PutUint64(p[48:], 1)
		} else {
			bo.PutUint32(p[0:], name)
			bo.PutUint32(p[4:], typ)
			bo.PutUint32(p[8:], uint32(flags))
			bo.PutUint32(p[12:], uint32(addr))
			bo.PutUint32(p[16:], uint32(off))
			bo.PutUint32(p[20:], uint32(size))
			bo.PutUint32(p[32:], 1)
		}
	}
	for i, s := range f.Secs {
		putSh(i+1, nameOff[i], s.Type, s.Flags, s.Addr, s.off, s.Size)
	}
	putSh(nsec-1, shstrName, SHTStrtab, 0, 0, uint64(strOff), uint64(len(strtab)))
	marks = append(marks, shoff, total)
	return out, marks
}

// Block is an expected memory block.
type Block struct {
	Begin uint64
	Data  []byte
}

func (b Block) End() uint64 { return b.Begin + uint64(len(b.Data)) }

func overlaps(bs []Block) bool {
	s := append([]Block(nil), bs...)
	sort.Slice(s, func(i, j int) bool { return s[i].Begin < s[j].Begin })
	for i := 1; i < len(s); i++ {
		if s[i].Begin < s[i-1].End() {
			return true
		}
	}
	return false
}

// Expect describes what a faithful loader produces.
type Expect struct {
	RejectType bool // e_type none/rel/core (and everything without the "executable" bit)
	MemReject  bool // memsz<filesz, overlapping segments, or no loadable segment
	CodeReject bool // overlapping code sections or none
	Mem, Code  []Block
	MemTooBig  bool // some segment needs more memory than the model materialises
}

// Model computes the expectation (for 32-bit files the fields are truncated the way
// the format stores them).
func (f *File) Model(limit uint64) Expect {
	var e Expect
	e.RejectType = f.Type == 0 || f.Type == 1 || f.Type == 4
	t32 := func(v uint64) uint64 {
		if f.Class64 {
			return v
		}
		return uint64(uint32(v))
	}
	for _, s := range f.Segs {
		if s.Type != PTLoad {
			continue
		}
		fs, ms := t32(s.Filesz), t32(s.Memsz)
		if ms < fs {
			e.MemReject = true
			continue
		}
		if ms > limit {
			e.MemTooBig = true
			continue
		}
		n := int(fs)
		if n > len(s.Data) {
			n = len(s.Data)
		}
		d := make([]byte, ms)
		copy(d, s.Data[:n])
		e.Mem = append(e.Mem, Block{t32(s.Vaddr), d})
	}
	if len(e.Mem) == 0 && !e.MemTooBig {
		e.MemReject = true
	}
	if overlaps(e.Mem) {
		e.MemReject = true
	}
	for _, s := range f.Secs {
		if s.Type != SHTProgbits || t32(s.Size) == 0 || t32(s.Addr) == 0 || s.Flags&SHFExec == 0 {
			continue
		}
		if t32(s.Size) != uint64(len(s.Data)) {
			e.CodeReject = true // size field disagrees with the bytes present (judged as "error allowed")
			continue
		}
		e.Code = append(e.Code, Block{t32(s.Addr), s.Data})
	}
	if len(e.Code) == 0 || overlaps(e.Code) {
		e.CodeReject = true
	}
	return e
}

// Random generates a file model.
func Random(r *rand.Rand) *File {
	f := &File{Class64: r.Intn(4) != 0, BigEndian: r.Intn(5) == 0, Machine: 243}
	f.Type = []uint16{2, 2, 2, 3, 0, 1, 4}[r.Intn(7)]
	base := uint64(0x10000)
	if r.Intn(4) == 0 {
		base = uint64(r.Intn(1 << 20))
	}
	if f.Class64 && r.Intn(6) == 0 {
		base = 1<<40 + uint64(r.Intn(1<<16))
	}
	if f.Class64 && r.Intn(8) == 0 {
		// around 2^63 (segments and sections on both sides of it) and in the upper half
		base = []uint64{1<<63 - 40, 1<<63 - 4, 1 << 63, 0xffffffff80000000, 1<<64 - 0x10000}[r.Intn(5)]
	}
	cur := base
	nseg := r.Intn(5)
	for i := 0; i < nseg; i++ {
		var s Seg
		s.Type = PTLoad
		if r.Intn(6) == 0 {
			s.Type = []uint32{0, 2, 4, 6, 0x6474e551}[r.Intn(5)]
		}
		n := r.Intn(40)
		s.Data = make([]byte, n)
		r.Read(s.Data)
		s.Filesz = uint64(n)
		s.Memsz = uint64(n)
		switch r.Intn(8) {
		case 0:
			s.Memsz += uint64(r.Intn(64)) // bss
		case 1:
			if n > 0 {
				s.Memsz = uint64(r.Intn(n)) // memsz < filesz
			}
		case 2:
			s.Memsz, s.Filesz = 0, 0
			s.Data = nil
		}
		switch r.Intn(8) {
		case 0:
			if cur > base+3 {
				cur -= uint64(1 + r.Intn(3)) // overlap with the previous one
			}
		case 1: // adjacent
		default:
			cur += uint64(r.Intn(100))
		}
		s.Vaddr = cur
		cur += s.Memsz
		f.Segs = append(f.Segs, s)
	}
	r.Shuffle(len(f.Segs), func(i, j int) { f.Segs[i], f.Segs[j] = f.Segs[j], f.Segs[i] })
	cur = base
	nsec := r.Intn(5)
	for i := 0; i < nsec; i++ {
		var s Sec
		s.Name = []string{".text", ".init", ".data", ".plt", ".rodata", ".bss"}[r.Intn(6)]
		s.Type = SHTProgbits
		s.Flags = SHFAlloc | SHFExec
		n := 4 * r.Intn(12)
		if r.Intn(4) == 0 {
			n = r.Intn(30)
		}
		s.Data = make([]byte, n)
		r.Read(s.Data)
		s.Size = uint64(n)
		switch r.Intn(14) {
		case 10: // executable but not allocated / with unrelated flag bits: still code
			s.Flags = SHFExec
		case 11:
			s.Flags = SHFExec | SHFWrite | uint64([]int{0, 0x10, 0x20, 0x40, 0x80, 0x200}[r.Intn(6)])
		case 12:
			s.Flags = SHFAlloc | SHFExec | SHFWrite | uint64([]int{0, 0x10, 0x20, 0x100, 0x400}[r.Intn(5)])
		case 13: // allocated, neither writable nor executable: not code
			s.Flags = SHFAlloc | uint64([]int{0, 0x10, 0x20}[r.Intn(3)])
		case 0:
			s.Flags = SHFAlloc | SHFWrite // not executable
		case 1:
			s.Type = SHTNobits
		case 2:
			s.Type = []uint32{2, 3, 4, 7, 0x70000003}[r.Intn(5)]
		}
		switch r.Intn(8) {
		case 0:
			if cur > base+3 {
				cur -= uint64(1 + r.Intn(3))
			}
		case 1:
		default:
			cur += uint64(r.Intn(64))
		}
		s.Addr = cur
		if r.Intn(10) == 0 {
			s.Addr = 0
		}
		cur += uint64(n)
		f.Secs = append(f.Secs, s)
	}
	r.Shuffle(len(f.Secs), func(i, j int) { f.Secs[i], f.Secs[j] = f.Secs[j], f.Secs[i] })
	f.Entry = base + uint64(r.Intn(64))
	return f
}
