module mltwist/verifh

go 1.18

require (
	mltwist v0.0.0
	golang.org/x/sys v0.19.0
)

require golang.org/x/exp v0.0.0-20240404231335-c0f41cb1a7a0 // indirect

replace mltwist => /repo
