module mltwist/verifh

go 1.18

require mltwist v0.0.0

replace mltwist => /repo
