module mltwist/verifh

go 1.18

require (
	golang.org/x/exp v0.0.0-20240404231335-c0f41cb1a7a0
	golang.org/x/sys v0.19.0
	mltwist v0.0.0
)

require (
	github.com/segmentio/fasthash v1.0.3 // indirect
	github.com/zyedidia/generic v1.2.1 // indirect
	golang.org/x/crypto v0.22.0 // indirect
	golang.org/x/term v0.19.0 // indirect
)

replace mltwist => /repo
