// Package mon is the shared runtime-monitoring framework: it shards a fixed,
// seed-determined list of cases over child processes, collects the oracles'
// verdicts, matches them against the committed known-findings file, writes replay
// witnesses and the evidence file, and maps everything to the three-valued
// verdict (exit 0 held / exit 1 VIOLATION / exit 2 INCONCLUSIVE).
package mon

import (
	"encoding/binary"
	"encoding/json"
	"flag"
	"fmt"
	"hash/fnv"
	"math/rand"
	"os"
	"os/exec"
	"path/filepath"
	"runtime"
	"runtime/debug"
	"sort"
	"strconv"
	"strings"
	"sync"
	"syscall"
	"time"
)

// Spec describes one property check.
type Spec struct {
	Prop        string
	Rule        string
	Explanation string
	Assumptions []string
	// Cases returns the number of cases of a tier (fixed, never time based).
	Cases func(tier string) int
	// Floor is the minimal distinct_nontrivial count below which a run is
	// inconclusive.
	Floor func(tier string) int
	// Run executes case c.Idx and reports through c.
	Run func(c *Case)
	// ParentSetup runs once in the parent before shards start (e.g. build the
	// production binary). An error makes the run inconclusive.
	ParentSetup func(tier string) error
	// ChildSetup runs once per shard process.
	ChildSetup func(tier string)
	// Exhaustive names tiers whose enumerated sub-space is complete.
	Exhaustive func(tier string) bool
	// MaxShards caps parallelism (0 = NumCPU).
	MaxShards int
	// RlimitAS, if nonzero, bounds the address space of each shard (bytes).
	RlimitAS uint64
	// RequiredCounts lists histogram keys that must be > 0 (hook reached).
	RequiredCounts []string
}

// Violation is one observed disagreement.
type Violation struct {
	CheckID  string            `json:"check_id"`
	Features map[string]string `json:"features,omitempty"`
	Witness  string            `json:"witness"`
	Idx      int               `json:"case_index"`
	Seed     int64             `json:"seed"`
	Tier     string            `json:"tier"`
	Prop     string            `json:"property"`
}

func (v *Violation) class() string {
	ks := make([]string, 0, len(v.Features))
	for k := range v.Features {
		ks = append(ks, k)
	}
	sort.Strings(ks)
	var sb strings.Builder
	sb.WriteString(v.CheckID)
	for _, k := range ks {
		fmt.Fprintf(&sb, "|%s=%s", k, v.Features[k])
	}
	return sb.String()
}

type shardResult struct {
	Done        bool             `json:"done"`
	Evaluations int64            `json:"evaluations"`
	Cases       int              `json:"cases"`
	Counts      map[string]int64 `json:"counts"`
	Samples     []any            `json:"samples"`
	Violations  []Violation      `json:"violations"`
	VioTotal    map[string]int64 `json:"vio_total"`
	NtCapped    bool             `json:"nt_capped"`
	Bulk        int64            `json:"bulk_distinct"`
	Notes       []string         `json:"notes"`
}

type shard struct {
	res      shardResult
	nt       map[uint64]struct{}
	perClass map[string]int
	mu       sync.Mutex
}

const ntCap = 1 << 22

// Case is handed to Spec.Run.
type Case struct {
	Idx    int
	Rng    *rand.Rand
	Tier   string
	Seed   int64
	Replay bool
	Prop   string
	sh     *shard
	failed bool
}

func caseSeed(seed int64, idx int) int64 {
	h := fnv.New64a()
	var b [16]byte
	binary.LittleEndian.PutUint64(b[:8], uint64(seed))
	binary.LittleEndian.PutUint64(b[8:], uint64(idx))
	h.Write(b[:])
	return int64(h.Sum64())
}

// Quick reports whether the tier is the quick one.
func (c *Case) Quick() bool { return c.Tier != "thorough" }

// Eval counts n oracle evaluations.
func (c *Case) Eval(n int) { c.sh.res.Evaluations += int64(n) }

// Count adds to a named histogram bucket.
func (c *Case) Count(name string, n int) { c.sh.res.Counts[name] += int64(n) }

// Nontrivial records a distinct non-trivial case by its canonical key.
func (c *Case) Nontrivial(key string) {
	h := fnv.New64a()
	h.Write([]byte(key))
	c.NontrivialHash(h.Sum64())
}

func (c *Case) NontrivialHash(h uint64) {
	if len(c.sh.nt) >= ntCap {
		c.sh.res.NtCapped = true
		return
	}
	c.sh.nt[h] = struct{}{}
}

// NontrivialBulk adds n cases that are distinct by construction (disjoint
// enumeration ranges) without storing their hashes.
func (c *Case) NontrivialBulk(n int64) { c.sh.res.Bulk += n }

// Sample records an example case (first few per shard are kept).
func (c *Case) Sample(v any) {
	if len(c.sh.res.Samples) < 2 {
		c.sh.res.Samples = append(c.sh.res.Samples, v)
	}
}

// WantSample reports whether another sample would be kept.
func (c *Case) WantSample() bool { return len(c.sh.res.Samples) < 2 }

// Note records a free-text note for the evidence file.
func (c *Case) Note(s string) {
	if len(c.sh.res.Notes) < 4 {
		c.sh.res.Notes = append(c.sh.res.Notes, s)
	}
}

// Fail records a violation.
func (c *Case) Fail(checkID string, feat map[string]string, format string, args ...any) {
	c.failed = true
	v := Violation{CheckID: checkID, Features: feat, Witness: fmt.Sprintf(format, args...),
		Idx: c.Idx, Seed: c.Seed, Tier: c.Tier, Prop: c.Prop}
	if len(v.Witness) > 6000 {
		v.Witness = v.Witness[:6000] + "...(truncated)"
	}
	cl := v.class()
	c.sh.res.VioTotal[cl]++
	if c.Replay {
		fmt.Printf("FAIL %s %v\n  %s\n", checkID, feat, v.Witness)
	}
	if c.sh.perClass[cl] >= 2 {
		return
	}
	c.sh.perClass[cl]++
	c.sh.res.Violations = append(c.sh.res.Violations, v)
}

// Failed reports whether the current case has failed already.
func (c *Case) Failed() bool { return c.failed }

// Try runs f, recovering a panic. It returns the panic value and stack.
func Try(f func()) (panicked bool, val any, stack string) {
	defer func() {
		if r := recover(); r != nil {
			panicked, val, stack = true, r, trimStack(string(debug.Stack()))
		}
	}()
	f()
	return
}

func trimStack(s string) string {
	lines := strings.Split(s, "\n")
	// keep the frames below the panic call, up to 24 lines
	start := 0
	for i, l := range lines {
		if strings.HasPrefix(l, "panic(") {
			start = i
			break
		}
	}
	end := start + 24
	if end > len(lines) {
		end = len(lines)
	}
	return strings.Join(lines[start:end], "\n")
}

// PanicSite extracts the first product-code frame ("mltwist/...func") of a stack.
func PanicSite(stack string) string {
	for _, l := range strings.Split(stack, "\n") {
		l = strings.TrimSpace(l)
		if strings.HasPrefix(l, "mltwist/") && !strings.HasPrefix(l, "mltwist/verifh") {
			// strip the argument list (the last parenthesised group) and generic noise
			if i := strings.LastIndex(l, "("); i > 0 {
				l = l[:i]
			}
			l = strings.ReplaceAll(l, "[...]", "")
			return l
		}
	}
	return "unknown"
}

// ---------------------------------------------------------------------------

func verifDir() string {
	if d := os.Getenv("VERIF_DIR"); d != "" {
		return d
	}
	return "/verif"
}

func envInt(name string, def int64) int64 {
	if s := os.Getenv(name); s != "" {
		if v, err := strconv.ParseInt(s, 10, 64); err == nil {
			return v
		}
	}
	return def
}

// Main is the entry point of every check binary.
func Main(spec Spec) {
	var (
		tier   = flag.String("tier", "", "quick|thorough")
		child  = flag.Bool("child", false, "internal: run one shard")
		shardI = flag.Int("shard", 0, "internal")
		shardN = flag.Int("n", 1, "internal")
		out    = flag.String("out", "", "internal")
		replay = flag.String("replay", "", "replay file")
		seedF  = flag.Int64("seed", 0, "seed (default VERIF_SEED or 1)")
		oneIdx = flag.Int("case", -1, "run a single case index in-process")
	)
	flag.Parse()
	if *tier == "" {
		*tier = os.Getenv("VERIF_TIER")
	}
	if *tier != "thorough" {
		*tier = "quick"
	}
	seed := *seedF
	if seed == 0 {
		seed = envInt("VERIF_SEED", 1)
	}
	switch {
	case *replay != "":
		os.Exit(runReplay(spec, *replay))
	case *oneIdx >= 0:
		os.Exit(runOne(spec, *tier, seed, *oneIdx))
	case *child:
		runChild(spec, *tier, seed, *shardI, *shardN, *out)
	default:
		os.Exit(runParent(spec, *tier, seed))
	}
}

func newShard() *shard {
	return &shard{res: shardResult{Counts: map[string]int64{}, VioTotal: map[string]int64{}},
		nt: map[uint64]struct{}{}, perClass: map[string]int{}}
}

func runCase(spec Spec, sh *shard, tier string, seed int64, idx int, replay bool) *Case {
	c := &Case{Idx: idx, Tier: tier, Seed: seed, Replay: replay, Prop: spec.Prop, sh: sh,
		Rng: rand.New(rand.NewSource(caseSeed(seed, idx)))}
	p, val, stack := Try(func() { spec.Run(c) })
	if p {
		// A panic that escaped the check's own Try calls: attribute it to the
		// product if a product frame is on the stack, else to the harness.
		site := PanicSite(stack)
		if site == "unknown" {
			c.Fail(spec.Prop+".harness-panic", nil, "harness panic: %v\n%s", val, stack)
		} else {
			c.Fail(spec.Prop+".panic", map[string]string{"site": site}, "panic: %v\n%s", val, stack)
		}
	}
	sh.res.Cases++
	return c
}

func runOne(spec Spec, tier string, seed int64, idx int) int {
	sh := newShard()
	if spec.ChildSetup != nil {
		spec.ChildSetup(tier)
	}
	c := runCase(spec, sh, tier, seed, idx, true)
	if c.failed {
		fmt.Printf("case %d (seed %d, tier %s): VIOLATED\n", idx, seed, tier)
		return 1
	}
	fmt.Printf("case %d (seed %d, tier %s): held\n", idx, seed, tier)
	return 0
}

func runReplay(spec Spec, path string) int {
	bs, err := os.ReadFile(path)
	if err != nil {
		fmt.Println("INCONCLUSIVE cannot read replay file:", err)
		return 2
	}
	var v Violation
	if err := json.Unmarshal(bs, &v); err != nil {
		fmt.Println("INCONCLUSIVE bad replay file:", err)
		return 2
	}
	fmt.Printf("replaying %s case %d seed %d tier %s\nrecorded: %s %v\n  %s\n", v.Prop, v.Idx, v.Seed, v.Tier, v.CheckID, v.Features, v.Witness)
	return runOne(spec, v.Tier, v.Seed, v.Idx)
}

func runChild(spec Spec, tier string, seed int64, i, n int, out string) {
	if spec.RlimitAS != 0 {
		_ = syscall.Setrlimit(9 /*RLIMIT_AS*/, &syscall.Rlimit{Cur: spec.RlimitAS, Max: spec.RlimitAS})
	}
	sh := newShard()
	cur, _ := os.OpenFile(out+".cur", os.O_CREATE|os.O_WRONLY|os.O_TRUNC, 0o644)
	if spec.ChildSetup != nil {
		spec.ChildSetup(tier)
	}
	total := spec.Cases(tier)
	var b [8]byte
	for idx := i; idx < total; idx += n {
		binary.LittleEndian.PutUint64(b[:], uint64(idx))
		cur.WriteAt(b[:], 0)
		runCase(spec, sh, tier, seed, idx, false)
	}
	sh.res.Done = true
	// non-trivial hashes as a binary side file
	nb := make([]byte, 0, 8*len(sh.nt))
	for h := range sh.nt {
		binary.LittleEndian.PutUint64(b[:], h)
		nb = append(nb, b[:]...)
	}
	if err := os.WriteFile(out+".nt", nb, 0o644); err != nil {
		fmt.Fprintln(os.Stderr, "write nt:", err)
		os.Exit(3)
	}
	js, err := json.Marshal(sh.res)
	if err != nil {
		fmt.Fprintln(os.Stderr, "marshal:", err)
		os.Exit(3)
	}
	if err := os.WriteFile(out, js, 0o644); err != nil {
		fmt.Fprintln(os.Stderr, "write:", err)
		os.Exit(3)
	}
	os.Exit(0)
}

// KnownFinding is one entry of known_findings.json.
type KnownFinding struct {
	Property string            `json:"property"`
	CheckID  string            `json:"check_id"`
	Where    map[string]string `json:"where,omitempty"`
	What     string            `json:"what"`
}

type knownFile struct {
	Findings []KnownFinding `json:"findings"`
	Fixed    []string       `json:"fixed"`
}

func loadKnown(prop string) ([]KnownFinding, error) {
	bs, err := os.ReadFile(filepath.Join(verifDir(), "known_findings.json"))
	if err != nil {
		if os.IsNotExist(err) {
			return nil, nil
		}
		return nil, err
	}
	var kf knownFile
	if err := json.Unmarshal(bs, &kf); err != nil {
		return nil, err
	}
	var out []KnownFinding
	for _, f := range kf.Findings {
		if f.Property == prop {
			out = append(out, f)
		}
	}
	return out, nil
}

func (k *KnownFinding) matches(v *Violation) bool {
	if k.CheckID != v.CheckID {
		return false
	}
	for key, val := range k.Where {
		if v.Features[key] != val {
			return false
		}
	}
	return true
}

func runParent(spec Spec, tier string, seed int64) int {
	start := time.Now()
	vdir := verifDir()
	inconclusive := func(format string, args ...any) int {
		fmt.Printf("INCONCLUSIVE property=%s %s\n", spec.Prop, fmt.Sprintf(format, args...))
		return 2
	}
	known, err := loadKnown(spec.Prop)
	if err != nil {
		return inconclusive("known_findings.json unreadable: %v", err)
	}
	if spec.ParentSetup != nil {
		if err := spec.ParentSetup(tier); err != nil {
			return inconclusive("setup failed: %v", err)
		}
	}
	n := runtime.NumCPU()
	if v := int(envInt("VERIF_SHARDS", 0)); v > 0 {
		n = v
	}
	if spec.MaxShards > 0 && n > spec.MaxShards {
		n = spec.MaxShards
	}
	total := spec.Cases(tier)
	if n > total {
		n = total
	}
	if n < 1 {
		n = 1
	}
	work := filepath.Join(vdir, "work", strings.ToLower(spec.Prop)+"-"+tier+"-"+strconv.Itoa(os.Getpid()))
	os.RemoveAll(work)
	if err := os.MkdirAll(work, 0o755); err != nil {
		return inconclusive("mkdir: %v", err)
	}
	defer os.RemoveAll(work)
	exe, _ := os.Executable()

	wd := time.Duration(envInt("VERIF_WATCHDOG_S", 0)) * time.Second
	if wd == 0 {
		wd = 20 * time.Minute
		if tier == "thorough" {
			wd = 4 * time.Hour
		}
	}
	type childState struct {
		cmd    *exec.Cmd
		out    string
		err    error
		killed bool
	}
	cs := make([]*childState, n)
	var wg sync.WaitGroup
	for i := 0; i < n; i++ {
		out := filepath.Join(work, fmt.Sprintf("shard-%d.json", i))
		cmd := exec.Command(exe, "-child", "-shard", strconv.Itoa(i), "-n", strconv.Itoa(n),
			"-tier", tier, "-seed", strconv.FormatInt(seed, 10), "-out", out)
		lf, _ := os.Create(out + ".log")
		cmd.Stdout, cmd.Stderr = lf, lf
		cmd.Env = append(os.Environ(), "GOTRACEBACK=single", "GOMAXPROCS=2")
		st := &childState{cmd: cmd, out: out}
		cs[i] = st
		if err := cmd.Start(); err != nil {
			return inconclusive("cannot start shard: %v", err)
		}
		wg.Add(1)
		go func() {
			defer wg.Done()
			st.err = cmd.Wait()
			lf.Close()
		}()
	}
	done := make(chan struct{})
	go func() { wg.Wait(); close(done) }()
	timedOut := false
	select {
	case <-done:
	case <-time.After(wd):
		timedOut = true
		for _, st := range cs {
			st.killed = true
			st.cmd.Process.Signal(syscall.SIGQUIT)
		}
		time.Sleep(2 * time.Second)
		for _, st := range cs {
			st.cmd.Process.Kill()
		}
		<-done
	}
	if timedOut {
		return inconclusive("watchdog (%v) fired; shards killed", wd)
	}

	// aggregate
	agg := shardResult{Counts: map[string]int64{}, VioTotal: map[string]int64{}}
	nt := map[uint64]struct{}{}
	var vios []Violation
	for i, st := range cs {
		bs, rerr := os.ReadFile(st.out)
		var r shardResult
		if rerr == nil {
			rerr = json.Unmarshal(bs, &r)
		}
		if rerr != nil || !r.Done {
			// fatal crash of the shard: attribute to the pending case
			idx := -1
			if cb, e := os.ReadFile(st.out + ".cur"); e == nil && len(cb) == 8 {
				idx = int(binary.LittleEndian.Uint64(cb))
			}
			logb, _ := os.ReadFile(st.out + ".log")
			tail := string(logb)
			if len(tail) > 3000 {
				tail = tail[:3000]
			}
			site := PanicSite(tail)
			vios = append(vios, Violation{CheckID: spec.Prop + ".fatal", Features: map[string]string{"site": site},
				Witness: fmt.Sprintf("shard %d died (%v) while running case %d:\n%s", i, st.err, idx, tail),
				Idx: idx, Seed: seed, Tier: tier, Prop: spec.Prop})
			agg.VioTotal[spec.Prop+".fatal|site="+site]++
			continue
		}
		agg.Evaluations += r.Evaluations
		agg.Bulk += r.Bulk
		agg.Cases += r.Cases
		for k, v := range r.Counts {
			agg.Counts[k] += v
		}
		for k, v := range r.VioTotal {
			agg.VioTotal[k] += v
		}
		if len(agg.Samples) < 5 {
			agg.Samples = append(agg.Samples, r.Samples...)
		}
		for _, s := range r.Notes {
			if len(agg.Notes) < 6 {
				agg.Notes = append(agg.Notes, s)
			}
		}
		agg.NtCapped = agg.NtCapped || r.NtCapped
		vios = append(vios, r.Violations...)
		if nb, e := os.ReadFile(st.out + ".nt"); e == nil {
			for j := 0; j+8 <= len(nb); j += 8 {
				if len(nt) < 4*ntCap {
					nt[binary.LittleEndian.Uint64(nb[j:])] = struct{}{}
				} else {
					agg.NtCapped = true
				}
			}
		}
	}
	if len(agg.Samples) > 5 {
		agg.Samples = agg.Samples[:5]
	}

	// classify violations
	sort.SliceStable(vios, func(i, j int) bool { return vios[i].Idx < vios[j].Idx })
	knownHits := make([]int64, len(known))
	var unknown []Violation
	seenClass := map[string]bool{}
	for i := range vios {
		v := &vios[i]
		matched := false
		for k := range known {
			if known[k].matches(v) {
				knownHits[k]++
				matched = true
				break
			}
		}
		if matched {
			continue
		}
		if seenClass[v.class()] {
			continue
		}
		seenClass[v.class()] = true
		unknown = append(unknown, *v)
	}
	for k, f := range known {
		obs := "not reached in this run"
		if knownHits[k] > 0 {
			obs = fmt.Sprintf("observed in %d recorded case(s)", knownHits[k])
		}
		fmt.Printf("KNOWN-FINDING: property=%s %s [%s]\n", spec.Prop, f.What, obs)
	}

	rdir := filepath.Join(vdir, "work", "replay")
	os.MkdirAll(rdir, 0o755)
	maxVio := int(envInt("VERIF_MAXVIO", 10))
	for i, v := range unknown {
		if i >= maxVio {
			break
		}
		p := filepath.Join(rdir, fmt.Sprintf("%s-%s-%d-%d.json", spec.Prop, tier, seed, i))
		js, _ := json.MarshalIndent(v, "", " ")
		os.WriteFile(p, js, 0o644)
		fmt.Printf("VIOLATION property=%s replay=%s\n", spec.Prop, p)
		w := v.Witness
		if len(w) > 1500 {
			w = w[:1500] + "..."
		}
		fmt.Printf("  check=%s features=%v case=%d\n  %s\n", v.CheckID, v.Features, v.Idx, strings.ReplaceAll(w, "\n", "\n  "))
	}

	// evidence
	dn := len(nt) + int(agg.Bulk)
	floor := 2
	if spec.Floor != nil {
		floor = spec.Floor(tier)
	}
	var missing []string
	for _, k := range spec.RequiredCounts {
		if agg.Counts[k] == 0 {
			missing = append(missing, k)
		}
	}
	verdict := "held"
	if len(unknown) > 0 {
		verdict = "violated"
	} else if dn < floor || len(missing) > 0 || agg.Evaluations == 0 {
		verdict = "inconclusive"
	}
	cov := map[string]any{
		"evaluations":         agg.Evaluations,
		"distinct_nontrivial": dn,
		"rule":                spec.Rule,
		"samples":             agg.Samples,
		"cases":               agg.Cases,
		"shards":              n,
		"observed":            agg.Counts,
		"floor":               floor,
		"verdict":             verdict,
	}
	if agg.NtCapped {
		cov["distinct_nontrivial_note"] = "hash set capped; the count is a lower bound"
	}
	if spec.Explanation != "" {
		cov["explanation"] = spec.Explanation
	}
	if len(agg.Notes) > 0 {
		cov["notes"] = agg.Notes
	}
	if spec.Exhaustive != nil && spec.Exhaustive(tier) {
		cov["exhaustive"] = true
	}
	if len(agg.VioTotal) > 0 {
		cov["violation_classes"] = agg.VioTotal
	}
	kn := int64(0)
	for _, h := range knownHits {
		kn += h
	}
	ev := map[string]any{
		"property_id":    spec.Prop,
		"tier":           tier,
		"seed":           seed,
		"level":          "exploration",
		"coverage":       cov,
		"assumptions":    spec.Assumptions,
		"wall_s":         time.Since(start).Seconds(),
		"violations":     len(unknown),
		"known_findings": kn,
	}
	if len(agg.Samples) == 0 {
		cov["samples"] = []any{"(no sample recorded)"}
	}
	edir := filepath.Join(vdir, "evidence")
	if d := os.Getenv("VERIF_EVIDENCE_DIR"); d != "" {
		edir = d // used when the checks are pointed at a seeded (broken) tree
	}
	os.MkdirAll(edir, 0o755)
	js, _ := json.MarshalIndent(ev, "", " ")
	if err := os.WriteFile(filepath.Join(edir, spec.Prop+".json"), append(js, '\n'), 0o644); err != nil {
		return inconclusive("cannot write evidence: %v", err)
	}

	fmt.Printf("%s %s seed=%d: cases=%d evaluations=%d distinct_nontrivial=%d violations=%d known=%d wall=%.1fs\n",
		spec.Prop, tier, seed, agg.Cases, agg.Evaluations, dn, len(unknown), kn, time.Since(start).Seconds())
	ks := make([]string, 0, len(agg.Counts))
	for k := range agg.Counts {
		ks = append(ks, k)
	}
	sort.Strings(ks)
	var sb strings.Builder
	for _, k := range ks {
		fmt.Fprintf(&sb, " %s=%d", k, agg.Counts[k])
	}
	fmt.Printf("  observed:%s\n", sb.String())
	switch verdict {
	case "violated":
		return 1
	case "inconclusive":
		return inconclusive("coverage floor not met: distinct_nontrivial=%d floor=%d missing=%v evaluations=%d", dn, floor, missing, agg.Evaluations)
	}
	return 0
}
