// Package refrv is an independent reference model of the RISC-V unprivileged ISA
// subset mltwist supports (RV32I/RV64I + Zicsr + fence/fence.i/ecall/ebreak + M +
// A), written from the specification. It shares no table with internal/riscv.
// The tool's documented approximations are part of the reference: SC always
// succeeds (rd=0), LR is a plain load, fence/fence.i/ecall/ebreak change nothing,
// one CSR register per 12-bit number.
package refrv

import (
	"fmt"
	"math/bits"
	"sort"
)

// Cfg is a parser configuration.
type Cfg struct {
	XLEN int // 32 or 64
	M, A bool
}

func (c Cfg) String() string {
	s := fmt.Sprintf("rv%di", c.XLEN)
	if c.M {
		s += "m"
	}
	if c.A {
		s += "a"
	}
	return s
}

// AllCfgs lists the 8 configurations.
func AllCfgs() []Cfg {
	var out []Cfg
	for _, x := range []int{32, 64} {
		for _, m := range []bool{false, true} {
			for _, a := range []bool{false, true} {
				out = append(out, Cfg{x, m, a})
			}
		}
	}
	return out
}

// Format of an instruction (operand fields that matter).
type Format int

const (
	FmtR Format = iota
	FmtI
	FmtS
	FmtB
	FmtU
	FmtJ
	FmtShift  // rd, rs1, shamt
	FmtFence  // nothing
	FmtSys    // nothing
	FmtCSR    // rd, rs1, csr
	FmtCSRI   // rd, zimm, csr
	FmtAMO    // rd, rs1, rs2 (+aq/rl ignored)
	FmtLR     // rd, rs1
	FmtLoad   // I-format load
)

// Def is one instruction definition.
type Def struct {
	Name        string
	Mask, Match uint32
	Fmt         Format
	Ext         byte // 'I', 'M', 'A'
	XLEN        int  // 0 = both, 32, 64
}

func r(name string, f7, f3, op uint32, ext byte, xlen int) Def {
	return Def{name, 0xfe00707f, f7<<25 | f3<<12 | op, FmtR, ext, xlen}
}
func i3(name string, f3, op uint32, f Format, xlen int) Def {
	return Def{name, 0x707f, f3<<12 | op, f, 'I', xlen}
}
func amo(name string, f5, f3 uint32, xlen int) Def {
	return Def{name, 0xf800707f, f5<<27 | f3<<12 | 0x2f, FmtAMO, 'A', xlen}
}

// Defs is the full table.
var Defs = buildDefs()

func buildDefs() []Def {
	d := []Def{
		{"lui", 0x7f, 0x37, FmtU, 'I', 0},
		{"auipc", 0x7f, 0x17, FmtU, 'I', 0},
		{"jal", 0x7f, 0x6f, FmtJ, 'I', 0},
		i3("jalr", 0, 0x67, FmtI, 0),
		i3("beq", 0, 0x63, FmtB, 0), i3("bne", 1, 0x63, FmtB, 0), i3("blt", 4, 0x63, FmtB, 0),
		i3("bge", 5, 0x63, FmtB, 0), i3("bltu", 6, 0x63, FmtB, 0), i3("bgeu", 7, 0x63, FmtB, 0),
		i3("lb", 0, 0x03, FmtLoad, 0), i3("lh", 1, 0x03, FmtLoad, 0), i3("lw", 2, 0x03, FmtLoad, 0),
		i3("lbu", 4, 0x03, FmtLoad, 0), i3("lhu", 5, 0x03, FmtLoad, 0),
		i3("ld", 3, 0x03, FmtLoad, 64), i3("lwu", 6, 0x03, FmtLoad, 64),
		i3("sb", 0, 0x23, FmtS, 0), i3("sh", 1, 0x23, FmtS, 0), i3("sw", 2, 0x23, FmtS, 0), i3("sd", 3, 0x23, FmtS, 64),
		i3("addi", 0, 0x13, FmtI, 0), i3("slti", 2, 0x13, FmtI, 0), i3("sltiu", 3, 0x13, FmtI, 0),
		i3("xori", 4, 0x13, FmtI, 0), i3("ori", 6, 0x13, FmtI, 0), i3("andi", 7, 0x13, FmtI, 0),
		// shifts by immediate: RV32 has 5-bit shamt (imm[11:5] fixed), RV64 6-bit
		{"slli", 0xfe00707f, 0x00001013, FmtShift, 'I', 32},
		{"srli", 0xfe00707f, 0x00005013, FmtShift, 'I', 32},
		{"srai", 0xfe00707f, 0x40005013, FmtShift, 'I', 32},
		{"slli", 0xfc00707f, 0x00001013, FmtShift, 'I', 64},
		{"srli", 0xfc00707f, 0x00005013, FmtShift, 'I', 64},
		{"srai", 0xfc00707f, 0x40005013, FmtShift, 'I', 64},
		r("add", 0, 0, 0x33, 'I', 0), r("sub", 0x20, 0, 0x33, 'I', 0), r("sll", 0, 1, 0x33, 'I', 0),
		r("slt", 0, 2, 0x33, 'I', 0), r("sltu", 0, 3, 0x33, 'I', 0), r("xor", 0, 4, 0x33, 'I', 0),
		r("srl", 0, 5, 0x33, 'I', 0), r("sra", 0x20, 5, 0x33, 'I', 0), r("or", 0, 6, 0x33, 'I', 0), r("and", 0, 7, 0x33, 'I', 0),
		// fence: fm, rs1, rd reserved zero; pred/succ free
		{"fence", 0xf00fffff, 0x0000000f, FmtFence, 'I', 0},
		{"fence.i", 0xffffffff, 0x0000100f, FmtFence, 'I', 0},
		{"ecall", 0xffffffff, 0x00000073, FmtSys, 'I', 0},
		{"ebreak", 0xffffffff, 0x00100073, FmtSys, 'I', 0},
		i3("csrrw", 1, 0x73, FmtCSR, 0), i3("csrrs", 2, 0x73, FmtCSR, 0), i3("csrrc", 3, 0x73, FmtCSR, 0),
		i3("csrrwi", 5, 0x73, FmtCSRI, 0), i3("csrrsi", 6, 0x73, FmtCSRI, 0), i3("csrrci", 7, 0x73, FmtCSRI, 0),
		// RV64I word forms
		i3("addiw", 0, 0x1b, FmtI, 64),
		{"slliw", 0xfe00707f, 0x0000101b, FmtShift, 'I', 64},
		{"srliw", 0xfe00707f, 0x0000501b, FmtShift, 'I', 64},
		{"sraiw", 0xfe00707f, 0x4000501b, FmtShift, 'I', 64},
		r("addw", 0, 0, 0x3b, 'I', 64), r("subw", 0x20, 0, 0x3b, 'I', 64), r("sllw", 0, 1, 0x3b, 'I', 64),
		r("srlw", 0, 5, 0x3b, 'I', 64), r("sraw", 0x20, 5, 0x3b, 'I', 64),
		// M
		r("mul", 1, 0, 0x33, 'M', 0), r("mulh", 1, 1, 0x33, 'M', 0), r("mulhsu", 1, 2, 0x33, 'M', 0), r("mulhu", 1, 3, 0x33, 'M', 0),
		r("div", 1, 4, 0x33, 'M', 0), r("divu", 1, 5, 0x33, 'M', 0), r("rem", 1, 6, 0x33, 'M', 0), r("remu", 1, 7, 0x33, 'M', 0),
		r("mulw", 1, 0, 0x3b, 'M', 64), r("divw", 1, 4, 0x3b, 'M', 64), r("divuw", 1, 5, 0x3b, 'M', 64),
		r("remw", 1, 6, 0x3b, 'M', 64), r("remuw", 1, 7, 0x3b, 'M', 64),
	}
	for _, wd := range []struct {
		suf  string
		f3   uint32
		xlen int
	}{{".w", 2, 0}, {".d", 3, 64}} {
		d = append(d, Def{"lr" + wd.suf, 0xf9f0707f, 0x02<<27 | wd.f3<<12 | 0x2f, FmtLR, 'A', wd.xlen})
		d = append(d, amo("sc"+wd.suf, 0x03, wd.f3, wd.xlen))
		for _, a := range []struct {
			n  string
			f5 uint32
		}{{"amoswap", 1}, {"amoadd", 0}, {"amoxor", 4}, {"amoand", 12}, {"amoor", 8},
			{"amomin", 16}, {"amomax", 20}, {"amominu", 24}, {"amomaxu", 28}} {
			d = append(d, amo(a.n+wd.suf, a.f5, wd.f3, wd.xlen))
		}
	}
	return d
}

// Enabled reports whether d belongs to configuration c.
func (d Def) Enabled(c Cfg) bool {
	if d.XLEN != 0 && d.XLEN != c.XLEN {
		return false
	}
	switch d.Ext {
	case 'M':
		return c.M
	case 'A':
		return c.A
	}
	return true
}

// DefsFor returns the definitions of a configuration.
func DefsFor(c Cfg) []Def {
	var out []Def
	for _, d := range Defs {
		if d.Enabled(c) {
			out = append(out, d)
		}
	}
	return out
}

// Decode finds the instruction a word denotes in configuration c.
func Decode(c Cfg, w uint32) (Def, bool) {
	for _, d := range Defs {
		if w&d.Mask == d.Match && d.Enabled(c) {
			return d, true
		}
	}
	return Def{}, false
}

// Fields
func Rd(w uint32) int  { return int(w >> 7 & 31) }
func Rs1(w uint32) int { return int(w >> 15 & 31) }
func Rs2(w uint32) int { return int(w >> 20 & 31) }
func ImmI(w uint32) int64 { return int64(int32(w) >> 20) }
func ImmS(w uint32) int64 { return int64(int32(w)>>25)<<5 | int64(w>>7&31) }
func ImmB(w uint32) int64 {
	return int64(int32(w)>>31)<<12 | int64(w>>7&1)<<11 | int64(w>>25&63)<<5 | int64(w>>8&15)<<1
}
func ImmU(w uint32) int64 { return int64(int32(w & 0xfffff000)) }
func ImmJ(w uint32) int64 {
	return int64(int32(w)>>31)<<20 | int64(w>>12&255)<<12 | int64(w>>20&1)<<11 | int64(w>>21&1023)<<1
}
func CSRNum(w uint32) uint16 { return uint16(w >> 20) }

// Memory is the byte store the machine runs on.
type Memory interface {
	Read(addr uint64) byte
	Write(addr uint64, b byte)
}

// Access is one architectural memory access.
type Access struct {
	Addr uint64
	W    int
	Val  uint64
}

// Log is the architectural access log of one step.
type Log struct {
	RegRead, RegWrite []int // x register numbers (x0 excluded)
	CSRRead, CSRWrite []uint16
	MemRead, MemWrite []Access
	IPWritten         bool // jal/jalr/branch
}

// Machine is the reference machine state.
type Machine struct {
	Cfg Cfg
	X   [32]uint64
	PC  uint64
	CSR func(n uint16) uint64 // initial CSR content
	csr map[uint16]uint64
	Mem Memory
	Log Log
}

func (m *Machine) mask() uint64 {
	if m.Cfg.XLEN == 32 {
		return 0xffffffff
	}
	return ^uint64(0)
}

// sx sign-extends the low XLEN bits to 64 (canonical internal form is the
// zero-extended XLEN-bit value; signed views use this).
func (m *Machine) sx(v uint64) int64 {
	if m.Cfg.XLEN == 32 {
		return int64(int32(uint32(v)))
	}
	return int64(v)
}

func (m *Machine) rx(i int) uint64 {
	if i == 0 {
		return 0
	}
	m.Log.RegRead = append(m.Log.RegRead, i)
	return m.X[i]
}

func (m *Machine) wx(i int, v uint64) {
	if i == 0 {
		return
	}
	m.Log.RegWrite = append(m.Log.RegWrite, i)
	m.X[i] = v & m.mask()
}

// GetCSR reads the current content of CSR n.
func (m *Machine) GetCSR(n uint16) uint64 {
	if v, ok := m.csr[n]; ok {
		return v
	}
	if m.CSR != nil {
		return m.CSR(n) & m.mask()
	}
	return 0
}

// Clone copies the machine; mem is the memory the copy runs on.
func (m *Machine) Clone(mem Memory) *Machine {
	c := *m
	c.Mem = mem
	c.csr = map[uint16]uint64{}
	for k, v := range m.csr {
		c.csr[k] = v
	}
	c.Log = Log{}
	return &c
}

// Clone copies a map memory.
func (m *MapMem) Clone() *MapMem {
	c := &MapMem{Bytes: make(map[uint64]byte, len(m.Bytes)), Init: m.Init}
	for k, v := range m.Bytes {
		c.Bytes[k] = v
	}
	return c
}

// CSRWritten lists CSRs written so far.
func (m *Machine) CSRWritten() []uint16 {
	var out []uint16
	for n := range m.csr {
		out = append(out, n)
	}
	sort.Slice(out, func(i, j int) bool { return out[i] < out[j] })
	return out
}

func (m *Machine) load(addr uint64, w int) uint64 {
	addr &= m.mask()
	var v uint64
	for i := 0; i < w; i++ {
		v |= uint64(m.Mem.Read((addr+uint64(i))&m.mask())) << (8 * uint(i))
	}
	m.Log.MemRead = append(m.Log.MemRead, Access{addr, w, v})
	return v
}

func (m *Machine) store(addr uint64, w int, v uint64) {
	addr &= m.mask()
	if w < 8 {
		v &= 1<<(8*uint(w)) - 1
	}
	for i := 0; i < w; i++ {
		m.Mem.Write((addr+uint64(i))&m.mask(), byte(v>>(8*uint(i))))
	}
	m.Log.MemWrite = append(m.Log.MemWrite, Access{addr, w, v})
}

func sext(v uint64, bitsN uint) uint64 {
	sh := 64 - bitsN
	return uint64(int64(v<<sh) >> sh)
}

// Step executes word w at m.PC. ok=false means w is not an instruction of the
// configuration (state unchanged).
func (m *Machine) Step(w uint32) (Def, bool) {
	d, ok := Decode(m.Cfg, w)
	if !ok {
		return d, false
	}
	m.Log = Log{}
	if m.csr == nil {
		m.csr = map[uint16]uint64{}
	}
	xl := uint(m.Cfg.XLEN)
	pc := m.PC
	next := (pc + 4) & m.mask()
	rd, rs1, rs2 := Rd(w), Rs1(w), Rs2(w)
	name := d.Name
	switch d.Fmt {
	case FmtU:
		if name == "lui" {
			m.wx(rd, uint64(ImmU(w)))
		} else {
			m.wx(rd, pc+uint64(ImmU(w)))
		}
	case FmtJ:
		m.wx(rd, next)
		next = (pc + uint64(ImmJ(w))) & m.mask()
		m.Log.IPWritten = true
	case FmtB:
		a, b := m.rx(rs1), m.rx(rs2)
		var take bool
		switch name {
		case "beq":
			take = a == b
		case "bne":
			take = a != b
		case "blt":
			take = m.sx(a) < m.sx(b)
		case "bge":
			take = m.sx(a) >= m.sx(b)
		case "bltu":
			take = a < b
		case "bgeu":
			take = a >= b
		}
		if take {
			next = (pc + uint64(ImmB(w))) & m.mask()
		}
		m.Log.IPWritten = true
	case FmtLoad:
		addr := m.rx(rs1) + uint64(ImmI(w))
		switch name {
		case "lb":
			m.wx(rd, sext(m.load(addr, 1), 8))
		case "lh":
			m.wx(rd, sext(m.load(addr, 2), 16))
		case "lw":
			m.wx(rd, sext(m.load(addr, 4), 32))
		case "ld":
			m.wx(rd, m.load(addr, 8))
		case "lbu":
			m.wx(rd, m.load(addr, 1))
		case "lhu":
			m.wx(rd, m.load(addr, 2))
		case "lwu":
			m.wx(rd, m.load(addr, 4))
		}
	case FmtS:
		addr := m.rx(rs1) + uint64(ImmS(w))
		v := m.rx(rs2)
		m.store(addr, map[string]int{"sb": 1, "sh": 2, "sw": 4, "sd": 8}[name], v)
	case FmtI:
		a := m.rx(rs1)
		imm := uint64(ImmI(w))
		switch name {
		case "jalr":
			t := (a + imm) &^ 1
			m.wx(rd, next)
			next = t & m.mask()
			m.Log.IPWritten = true
		case "addi":
			m.wx(rd, a+imm)
		case "slti":
			m.wx(rd, b2u(m.sx(a) < int64(imm)))
		case "sltiu":
			m.wx(rd, b2u(a < imm&m.mask()))
		case "xori":
			m.wx(rd, a^imm)
		case "ori":
			m.wx(rd, a|imm)
		case "andi":
			m.wx(rd, a&imm)
		case "addiw":
			m.wx(rd, sext(uint64(uint32(a+imm)), 32))
		}
	case FmtShift:
		a := m.rx(rs1)
		sh := uint(w >> 20 & 63)
		switch name {
		case "slli":
			m.wx(rd, a<<sh)
		case "srli":
			m.wx(rd, a>>sh)
		case "srai":
			m.wx(rd, uint64(m.sx(a)>>sh))
		case "slliw":
			m.wx(rd, sext(uint64(uint32(a)<<(sh&31)), 32))
		case "srliw":
			m.wx(rd, sext(uint64(uint32(a)>>(sh&31)), 32))
		case "sraiw":
			m.wx(rd, uint64(int64(int32(uint32(a))>>(sh&31))))
		}
	case FmtR:
		a, b := m.rx(rs1), m.rx(rs2)
		m.wx(rd, m.alu(name, a, b, xl))
	case FmtFence, FmtSys:
	case FmtCSR, FmtCSRI:
		n := CSRNum(w)
		var src uint64
		if d.Fmt == FmtCSR {
			src = m.rx(rs1)
		} else {
			src = uint64(rs1)
		}
		old := m.GetCSR(n)
		m.Log.CSRRead = append(m.Log.CSRRead, n)
		var nv uint64
		switch name {
		case "csrrw", "csrrwi":
			nv = src
		case "csrrs", "csrrsi":
			nv = old | src
		case "csrrc", "csrrci":
			nv = old &^ src
		}
		m.wx(rd, old)
		m.csr[n] = nv & m.mask()
		m.Log.CSRWrite = append(m.Log.CSRWrite, n)
	case FmtLR:
		addr := m.rx(rs1)
		if name == "lr.w" {
			m.wx(rd, sext(m.load(addr, 4), 32))
		} else {
			m.wx(rd, m.load(addr, 8))
		}
	case FmtAMO:
		addr := m.rx(rs1)
		src := m.rx(rs2)
		wd := 4
		if name[len(name)-1] == 'd' {
			wd = 8
		}
		if name[:2] == "sc" {
			m.store(addr, wd, src)
			m.wx(rd, 0)
			break
		}
		old := m.load(addr, wd)
		var ext uint64 = old
		if wd == 4 {
			ext = sext(old, 32)
			src = uint64(uint32(src))
		}
		var nv uint64
		sold, ssrc := int64(ext), int64(src)
		if wd == 4 {
			ssrc = int64(int32(uint32(src)))
		}
		switch name[:len(name)-2] {
		case "amoswap":
			nv = src
		case "amoadd":
			nv = old + src
		case "amoxor":
			nv = old ^ src
		case "amoand":
			nv = old & src
		case "amoor":
			nv = old | src
		case "amomin":
			nv = pick(sold < ssrc, old, src)
		case "amomax":
			nv = pick(sold > ssrc, old, src)
		case "amominu":
			nv = pick(old < src, old, src)
		case "amomaxu":
			nv = pick(old > src, old, src)
		}
		m.wx(rd, ext)
		m.store(addr, wd, nv)
	}
	m.PC = next
	return d, true
}

func pick(c bool, a, b uint64) uint64 {
	if c {
		return a
	}
	return b
}

func b2u(b bool) uint64 {
	if b {
		return 1
	}
	return 0
}

func (m *Machine) alu(name string, a, b uint64, xl uint) uint64 {
	sa, sb := m.sx(a), m.sx(b)
	shm := uint64(xl - 1)
	switch name {
	case "add":
		return a + b
	case "sub":
		return a - b
	case "sll":
		return a << (b & shm)
	case "slt":
		return b2u(sa < sb)
	case "sltu":
		return b2u(a < b)
	case "xor":
		return a ^ b
	case "srl":
		return a >> (b & shm)
	case "sra":
		return uint64(sa >> (b & shm))
	case "or":
		return a | b
	case "and":
		return a & b
	case "addw":
		return sext(uint64(uint32(a+b)), 32)
	case "subw":
		return sext(uint64(uint32(a-b)), 32)
	case "sllw":
		return sext(uint64(uint32(a)<<(b&31)), 32)
	case "srlw":
		return sext(uint64(uint32(a)>>(b&31)), 32)
	case "sraw":
		return uint64(int64(int32(uint32(a)) >> (b & 31)))
	case "mul":
		return a * b
	case "mulh":
		if xl == 32 {
			return uint64((sa * sb) >> 32)
		}
		hi, _ := bits.Mul64(a, b)
		if sa < 0 {
			hi -= b
		}
		if sb < 0 {
			hi -= a
		}
		return hi
	case "mulhu":
		if xl == 32 {
			return (a * b) >> 32
		}
		hi, _ := bits.Mul64(a, b)
		return hi
	case "mulhsu":
		if xl == 32 {
			return uint64((sa * int64(b)) >> 32)
		}
		hi, _ := bits.Mul64(a, b)
		if sa < 0 {
			hi -= b
		}
		return hi
	case "div":
		return uint64(sdiv(sa, sb, xl))
	case "divu":
		if b == 0 {
			return ^uint64(0)
		}
		return a / b
	case "rem":
		return uint64(srem(sa, sb, xl))
	case "remu":
		if b == 0 {
			return a
		}
		return a % b
	case "mulw":
		return sext(uint64(uint32(a)*uint32(b)), 32)
	case "divw":
		return uint64(sdiv(int64(int32(uint32(a))), int64(int32(uint32(b))), 32))
	case "divuw":
		x, y := uint32(a), uint32(b)
		if y == 0 {
			return ^uint64(0)
		}
		return sext(uint64(x/y), 32)
	case "remw":
		return uint64(srem(int64(int32(uint32(a))), int64(int32(uint32(b))), 32))
	case "remuw":
		x, y := uint32(a), uint32(b)
		if y == 0 {
			return sext(uint64(x), 32)
		}
		return sext(uint64(x%y), 32)
	}
	panic("refrv: unknown alu op " + name)
}

func sdiv(a, b int64, xl uint) int64 {
	if b == 0 {
		return -1
	}
	min := int64(-1) << (xl - 1)
	if a == min && b == -1 {
		return min
	}
	return a / b
}

func srem(a, b int64, xl uint) int64 {
	if b == 0 {
		return a
	}
	min := int64(-1) << (xl - 1)
	if a == min && b == -1 {
		return 0
	}
	return a % b
}

// MapMem is a simple memory with a fallback function.
type MapMem struct {
	Bytes map[uint64]byte
	Init  func(addr uint64) byte
}

func NewMapMem(init func(uint64) byte) *MapMem { return &MapMem{Bytes: map[uint64]byte{}, Init: init} }

func (m *MapMem) Read(a uint64) byte {
	if b, ok := m.Bytes[a]; ok {
		return b
	}
	if m.Init != nil {
		return m.Init(a)
	}
	return 0
}

func (m *MapMem) Write(a uint64, b byte) { m.Bytes[a] = b }

// ---------------------------------------------------------------------------
// Encoder helpers for generators.

// SetBits overwrites bits [lo, lo+n) of w with v unless the mask of d covers
// any of them.
func (d Def) SetBits(w uint32, lo, n uint, v uint32) uint32 {
	m := (uint32(1)<<n - 1) << lo
	if d.Mask&m != 0 {
		// partially fixed: only overwrite the free bits
		free := m &^ d.Mask
		return w&^free | (v<<lo)&free
	}
	return w&^m | (v<<lo)&m
}

// Word builds a word of definition d from random filler bits.
func (d Def) Word(filler uint32) uint32 { return filler&^d.Mask | d.Match }

// EncI etc. compose immediates.
func EncImmI(w uint32, imm int64) uint32 { return w&0x000fffff | uint32(imm&0xfff)<<20 }
func EncImmS(w uint32, imm int64) uint32 {
	u := uint32(imm & 0xfff)
	return w&0x01fff07f | (u>>5)<<25 | (u&31)<<7
}
func EncImmB(w uint32, imm int64) uint32 {
	u := uint32(imm & 0x1fff)
	return w&0x01fff07f | (u>>12&1)<<31 | (u>>5&63)<<25 | (u>>1&15)<<8 | (u>>11&1)<<7
}
func EncImmU(w uint32, imm int64) uint32 { return w&0xfff | uint32(imm)&0xfffff000 }
func EncImmJ(w uint32, imm int64) uint32 {
	u := uint32(imm & 0x1fffff)
	return w&0xfff | (u>>20&1)<<31 | (u>>1&1023)<<21 | (u>>11&1)<<20 | (u>>12&255)<<12
}
