// Package refir is an independent reference semantics of the mltwist expression
// IR, written from the documentation of pkg/expr only. It imports nothing of the
// product except the pkg/expr data types (constructors and accessors).
package refir

import (
	"encoding/binary"
	"fmt"
	"hash/fnv"
	"math/big"
	"sort"
	"strings"

	"mltwist/pkg/expr"
)

// Env is a valuation: registers are unbounded naturals, memory is byte addressed
// by an unbounded natural address.
type Env interface {
	Reg(key string) *big.Int
	Mem(key string, addr *big.Int) byte
}

var one = big.NewInt(1)

// Mod2 returns 2^(8w).
func Mod2(w int) *big.Int { return new(big.Int).Lsh(one, uint(8*w)) }

// Adjust returns v mod 2^(8w) (v must be non-negative).
func Adjust(v *big.Int, w int) *big.Int {
	if v.BitLen() <= 8*w {
		return v
	}
	m := Mod2(w)
	return new(big.Int).Mod(v, m)
}

// FromLE converts little-endian bytes to a natural.
func FromLE(bs []byte) *big.Int {
	be := make([]byte, len(bs))
	for i, b := range bs {
		be[len(bs)-1-i] = b
	}
	return new(big.Int).SetBytes(be)
}

// ToLE converts natural v (must fit) into w little-endian bytes (truncating).
func ToLE(v *big.Int, w int) []byte {
	v = Adjust(v, w)
	be := v.Bytes()
	out := make([]byte, w)
	for i := range be {
		out[i] = be[len(be)-1-i]
	}
	return out
}

// Eval evaluates e in env; the result is in [0, 2^(8*width)).
func Eval(e expr.Expr, env Env) *big.Int {
	w := int(e.Width())
	switch x := e.(type) {
	case expr.Const:
		return FromLE(x.Bytes())
	case expr.RegLoad:
		return Adjust(env.Reg(string(x.Key())), w)
	case expr.MemLoad:
		a := Eval(x.Addr(), env)
		bs := make([]byte, w)
		for i := 0; i < w; i++ {
			ai := new(big.Int).Add(a, big.NewInt(int64(i)))
			bs[i] = env.Mem(string(x.Key()), ai)
		}
		return FromLE(bs)
	case expr.Binary:
		a := Adjust(Eval(x.Arg1(), env), w)
		b := Adjust(Eval(x.Arg2(), env), w)
		return BinOp(x.Op(), a, b, w)
	case expr.Less:
		a := Adjust(Eval(x.Arg1(), env), w)
		b := Adjust(Eval(x.Arg2(), env), w)
		if a.Cmp(b) < 0 {
			return Adjust(Eval(x.ExprTrue(), env), w)
		}
		return Adjust(Eval(x.ExprFalse(), env), w)
	default:
		panic(fmt.Sprintf("refir: unknown expr %T", e))
	}
}

// BinOp computes one binary operation on operands already adjusted to w.
func BinOp(op expr.BinaryOp, a, b *big.Int, w int) *big.Int {
	bits := 8 * w
	switch op {
	case expr.Add:
		return Adjust(new(big.Int).Add(a, b), w)
	case expr.Mul:
		return Adjust(new(big.Int).Mul(a, b), w)
	case expr.Lsh:
		if b.Cmp(big.NewInt(int64(bits))) >= 0 {
			return new(big.Int)
		}
		return Adjust(new(big.Int).Lsh(a, uint(b.Int64())), w)
	case expr.Rsh:
		if b.Cmp(big.NewInt(int64(bits))) >= 0 {
			return new(big.Int)
		}
		return new(big.Int).Rsh(a, uint(b.Int64()))
	case expr.Div:
		if b.Sign() == 0 {
			return new(big.Int).Sub(Mod2(w), one)
		}
		return new(big.Int).Quo(a, b)
	case expr.Nand:
		and := new(big.Int).And(a, b)
		all := new(big.Int).Sub(Mod2(w), one)
		return and.Xor(and, all)
	default:
		panic(fmt.Sprintf("refir: unknown op %d", op))
	}
}

// ---------------------------------------------------------------------------
// Hash environment

// HashEnv is a deterministic pseudo-random valuation keyed by a seed. Mode 0 is
// hashed, mode 1 all zero, mode 2 all ones (registers 40 bytes of 0xff).
type HashEnv struct {
	Seed uint64
	Mode int
	// RegOverride/MemOverride let checks pin specific values.
	RegOverride map[string]*big.Int
}

func h64(seed uint64, parts ...[]byte) uint64 {
	h := fnv.New64a()
	var b [8]byte
	binary.LittleEndian.PutUint64(b[:], seed)
	h.Write(b[:])
	for _, p := range parts {
		binary.LittleEndian.PutUint64(b[:], uint64(len(p)))
		h.Write(b[:])
		h.Write(p)
	}
	x := h.Sum64()
	// final avalanche (splitmix)
	x ^= x >> 30
	x *= 0xbf58476d1ce4e5b9
	x ^= x >> 27
	x *= 0x94d049bb133111eb
	x ^= x >> 31
	return x
}

func (e HashEnv) Reg(key string) *big.Int {
	if v, ok := e.RegOverride[key]; ok {
		return v
	}
	switch e.Mode {
	case 1:
		return new(big.Int)
	case 2:
		return new(big.Int).Sub(Mod2(40), one)
	}
	x := h64(e.Seed, []byte("reg"), []byte(key))
	n := 1 + int(x%40)
	if x>>8%16 == 0 {
		n = 255
	}
	bs := make([]byte, n)
	st := x
	for i := range bs {
		if i%8 == 0 {
			st = h64(st, []byte{byte(i)})
		}
		bs[i] = byte(st >> (8 * uint(i%8)))
	}
	// boundary flavour: sometimes saturate to 0xff / 0x00 / 0x80 patterns
	switch (x >> 16) % 8 {
	case 0:
		for i := range bs {
			bs[i] = 0xff
		}
	case 1:
		for i := range bs {
			bs[i] = 0
		}
		bs[len(bs)-1] = 0x80
	}
	return FromLE(bs)
}

func (e HashEnv) Mem(key string, addr *big.Int) byte {
	switch e.Mode {
	case 1:
		return 0
	case 2:
		return 0xff
	}
	return byte(h64(e.Seed, []byte("mem"), []byte(key), addr.Bytes()))
}

// Envs returns the standard set of n hashed valuations plus zero and ones.
func Envs(seed uint64, n int) []Env {
	out := make([]Env, 0, n+2)
	for i := 0; i < n; i++ {
		out = append(out, HashEnv{Seed: seed*1000003 + uint64(i)})
	}
	out = append(out, HashEnv{Mode: 1}, HashEnv{Mode: 2})
	return out
}

// ---------------------------------------------------------------------------
// Concrete mutable state + effect application (used by C01/C03/C05/C18).

// State is a concrete machine state on top of a base Env.
type State struct {
	Base Env
	Regs map[string]*big.Int
	Mems map[string]map[string]byte // key -> addr decimal string -> byte
	// AddrBits, if nonzero, wraps memory addresses modulo 2^AddrBits.
	AddrBits uint
}

func NewState(base Env) *State {
	return &State{Base: base, Regs: map[string]*big.Int{}, Mems: map[string]map[string]byte{}}
}

func (s *State) Clone() *State {
	c := NewState(s.Base)
	c.AddrBits = s.AddrBits
	for k, v := range s.Regs {
		c.Regs[k] = v
	}
	for k, m := range s.Mems {
		mm := make(map[string]byte, len(m))
		for a, b := range m {
			mm[a] = b
		}
		c.Mems[k] = mm
	}
	return c
}

func (s *State) wrap(a *big.Int) *big.Int {
	if s.AddrBits == 0 || a.BitLen() <= int(s.AddrBits) {
		return a
	}
	return new(big.Int).And(a, new(big.Int).Sub(new(big.Int).Lsh(one, s.AddrBits), one))
}

func (s *State) Reg(key string) *big.Int {
	if v, ok := s.Regs[key]; ok {
		return v
	}
	return s.Base.Reg(key)
}

func (s *State) Mem(key string, addr *big.Int) byte {
	addr = s.wrap(addr)
	if m, ok := s.Mems[key]; ok {
		if b, ok := m[addr.String()]; ok {
			return b
		}
	}
	return s.Base.Mem(key, addr)
}

func (s *State) SetMem(key string, addr *big.Int, b byte) {
	addr = s.wrap(addr)
	m, ok := s.Mems[key]
	if !ok {
		m = map[string]byte{}
		s.Mems[key] = m
	}
	m[addr.String()] = b
}

// Apply evaluates all effect operands in the pre-state and then applies the
// effects in order.
func (s *State) Apply(effects []expr.Effect) {
	type pend struct {
		reg  bool
		key  string
		addr *big.Int
		val  *big.Int
		w    int
	}
	ps := make([]pend, 0, len(effects))
	for _, ef := range effects {
		switch x := ef.(type) {
		case expr.RegStore:
			v := Adjust(Eval(x.Value(), s), int(x.Width()))
			ps = append(ps, pend{reg: true, key: string(x.Key()), val: v, w: int(x.Width())})
		case expr.MemStore:
			a := Eval(x.Addr(), s)
			v := Adjust(Eval(x.Value(), s), int(x.Width()))
			ps = append(ps, pend{key: string(x.Key()), addr: a, val: v, w: int(x.Width())})
		default:
			panic(fmt.Sprintf("refir: unknown effect %T", ef))
		}
	}
	for _, p := range ps {
		if p.reg {
			s.Regs[p.key] = p.val
			continue
		}
		bs := ToLE(p.val, p.w)
		for i, b := range bs {
			s.SetMem(p.key, new(big.Int).Add(p.addr, big.NewInt(int64(i))), b)
		}
	}
}

// Fingerprint returns a canonical string of all explicitly set registers and
// memory bytes (used to compare two states that share one base).
func (s *State) Fingerprint() string {
	var sb strings.Builder
	ks := make([]string, 0, len(s.Regs))
	for k := range s.Regs {
		ks = append(ks, k)
	}
	sort.Strings(ks)
	for _, k := range ks {
		fmt.Fprintf(&sb, "r[%s]=%x;", k, s.Regs[k])
	}
	ms := make([]string, 0, len(s.Mems))
	for k := range s.Mems {
		ms = append(ms, k)
	}
	sort.Strings(ms)
	for _, k := range ms {
		as := make([]string, 0, len(s.Mems[k]))
		for a := range s.Mems[k] {
			as = append(as, a)
		}
		sort.Slice(as, func(i, j int) bool {
			if len(as[i]) != len(as[j]) {
				return len(as[i]) < len(as[j])
			}
			return as[i] < as[j]
		})
		for _, a := range as {
			fmt.Fprintf(&sb, "m[%s][%s]=%02x;", k, a, s.Mems[k][a])
		}
	}
	return sb.String()
}

// ---------------------------------------------------------------------------
// Structural tools

// Equal is structural equality (kind, width, all attributes, recursively).
func Equal(a, b expr.Expr) bool {
	if a.Width() != b.Width() {
		return false
	}
	switch x := a.(type) {
	case expr.Const:
		y, ok := b.(expr.Const)
		return ok && string(x.Bytes()) == string(y.Bytes())
	case expr.RegLoad:
		y, ok := b.(expr.RegLoad)
		return ok && x.Key() == y.Key()
	case expr.MemLoad:
		y, ok := b.(expr.MemLoad)
		return ok && x.Key() == y.Key() && Equal(x.Addr(), y.Addr())
	case expr.Binary:
		y, ok := b.(expr.Binary)
		return ok && x.Op() == y.Op() && Equal(x.Arg1(), y.Arg1()) && Equal(x.Arg2(), y.Arg2())
	case expr.Less:
		y, ok := b.(expr.Less)
		return ok && Equal(x.Arg1(), y.Arg1()) && Equal(x.Arg2(), y.Arg2()) &&
			Equal(x.ExprTrue(), y.ExprTrue()) && Equal(x.ExprFalse(), y.ExprFalse())
	}
	panic(fmt.Sprintf("refir: unknown expr %T", a))
}

// Clone deep-copies an expression tree (constants get fresh byte slices).
func Clone(e expr.Expr) expr.Expr {
	switch x := e.(type) {
	case expr.Const:
		return expr.NewConst(append([]byte(nil), x.Bytes()...), x.Width())
	case expr.RegLoad:
		return expr.NewRegLoad(x.Key(), x.Width())
	case expr.MemLoad:
		return expr.NewMemLoad(x.Key(), Clone(x.Addr()), x.Width())
	case expr.Binary:
		return expr.NewBinary(x.Op(), Clone(x.Arg1()), Clone(x.Arg2()), x.Width())
	case expr.Less:
		return expr.NewLess(Clone(x.Arg1()), Clone(x.Arg2()), Clone(x.ExprTrue()), Clone(x.ExprFalse()), x.Width())
	}
	panic(fmt.Sprintf("refir: unknown expr %T", e))
}

// Children returns direct subexpressions in documented order.
func Children(e expr.Expr) []expr.Expr {
	switch x := e.(type) {
	case expr.Const, expr.RegLoad:
		return nil
	case expr.MemLoad:
		return []expr.Expr{x.Addr()}
	case expr.Binary:
		return []expr.Expr{x.Arg1(), x.Arg2()}
	case expr.Less:
		return []expr.Expr{x.Arg1(), x.Arg2(), x.ExprTrue(), x.ExprFalse()}
	}
	panic(fmt.Sprintf("refir: unknown expr %T", e))
}

// PreOrder lists every node of e in pre-order.
func PreOrder(e expr.Expr) []expr.Expr {
	out := []expr.Expr{e}
	for _, c := range Children(e) {
		out = append(out, PreOrder(c)...)
	}
	return out
}

// Count returns the number of nodes.
func Count(e expr.Expr) int {
	n := 1
	for _, c := range Children(e) {
		n += Count(c)
	}
	return n
}

var opNames = map[expr.BinaryOp]string{expr.Add: "add", expr.Lsh: "lsh", expr.Rsh: "rsh",
	expr.Mul: "mul", expr.Div: "div", expr.Nand: "nand"}

// String prints an S-expression with widths.
func String(e expr.Expr) string {
	var sb strings.Builder
	write(&sb, e)
	return sb.String()
}

func write(sb *strings.Builder, e expr.Expr) {
	switch x := e.(type) {
	case expr.Const:
		fmt.Fprintf(sb, "(c%d %x)", x.Width(), x.Bytes())
	case expr.RegLoad:
		fmt.Fprintf(sb, "(reg%d %q)", x.Width(), string(x.Key()))
	case expr.MemLoad:
		fmt.Fprintf(sb, "(mem%d %q ", x.Width(), string(x.Key()))
		write(sb, x.Addr())
		sb.WriteByte(')')
	case expr.Binary:
		fmt.Fprintf(sb, "(%s%d ", opNames[x.Op()], x.Width())
		write(sb, x.Arg1())
		sb.WriteByte(' ')
		write(sb, x.Arg2())
		sb.WriteByte(')')
	case expr.Less:
		fmt.Fprintf(sb, "(less%d ", x.Width())
		for i, c := range Children(x) {
			if i > 0 {
				sb.WriteByte(' ')
			}
			write(sb, c)
		}
		sb.WriteByte(')')
	default:
		fmt.Fprintf(sb, "(?%T)", e)
	}
}

// EffectString prints an effect.
func EffectString(ef expr.Effect) string {
	switch x := ef.(type) {
	case expr.RegStore:
		return fmt.Sprintf("(regstore%d %q %s)", x.Width(), string(x.Key()), String(x.Value()))
	case expr.MemStore:
		return fmt.Sprintf("(memstore%d %q %s %s)", x.Width(), string(x.Key()), String(x.Addr()), String(x.Value()))
	}
	return fmt.Sprintf("(?%T)", ef)
}

func EffectsString(efs []expr.Effect) string {
	ss := make([]string, len(efs))
	for i, e := range efs {
		ss[i] = EffectString(e)
	}
	return "[" + strings.Join(ss, " ") + "]"
}

// HasKind reports whether e contains a node satisfying pred.
func Has(e expr.Expr, pred func(expr.Expr) bool) bool {
	if pred(e) {
		return true
	}
	for _, c := range Children(e) {
		if Has(c, pred) {
			return true
		}
	}
	return false
}

// Closed reports whether e contains no register or memory load.
func Closed(e expr.Expr) bool {
	return !Has(e, func(x expr.Expr) bool {
		switch x.(type) {
		case expr.RegLoad, expr.MemLoad:
			return true
		}
		return false
	})
}

// CountLess returns the number of conditional nodes of e (shared subtrees counted each
// time they occur).
func CountLess(e expr.Expr) int {
	n := 0
	if _, ok := e.(expr.Less); ok {
		n = 1
	}
	for _, ch := range Children(e) {
		n += CountLess(ch)
	}
	return n
}
