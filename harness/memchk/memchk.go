// Package memchk holds the byte-addressed shadow model used to monitor the
// memory implementations (C14, C15, C16, C32) and the comparison helpers.
package memchk

import (
	"fmt"
	"math/big"
	"sort"
	"strings"

	"mltwist/internal/state/interval"
	"mltwist/internal/state/memory"
	"mltwist/pkg/expr"
	"mltwist/pkg/model"
	"mltwist/verifh/mon"
	"mltwist/verifh/refir"
)

// Value is one stored value with its write width.
type Value struct {
	ID    int
	Ex    expr.Expr // the caller's expression (watched by the canary)
	Own   expr.Expr // private deep copy evaluated by the shadow
	W     int
	Print string // S-expression at the time of the store (immutability canary)
	cache map[int]*big.Int
}

// Cell is one shadow byte: byte Idx of Value adjusted to its write width.
type Cell struct {
	V   *Value
	Idx int
}

// Shadow is a byte-addressed memory of symbolic bytes, optionally over a base.
type Shadow struct {
	Cells map[uint64]Cell
	Base  *Shadow
	next  int
	Vals  []*Value
}

func NewShadow(base *Shadow) *Shadow { return &Shadow{Cells: map[uint64]Cell{}, Base: base} }

// Store records a write of ex at [addr, addr+w).
func (s *Shadow) Store(addr uint64, ex expr.Expr, w int) *Value {
	v := &Value{ID: s.next, Ex: ex, Own: refir.Clone(ex), W: w, Print: refir.String(ex), cache: map[int]*big.Int{}}
	s.next++
	s.Vals = append(s.Vals, v)
	for i := 0; i < w; i++ {
		s.Cells[addr+uint64(i)] = Cell{V: v, Idx: i}
	}
	return v
}

// Get returns the visible cell at addr (upper layer first).
func (s *Shadow) Get(addr uint64) (Cell, bool) {
	if c, ok := s.Cells[addr]; ok {
		return c, true
	}
	if s.Base != nil {
		return s.Base.Get(addr)
	}
	return Cell{}, false
}

// Byte evaluates the visible byte at addr under env (envIdx is a cache key).
func (s *Shadow) Byte(addr uint64, env refir.Env, envIdx int) (byte, bool) {
	c, ok := s.Get(addr)
	if !ok {
		return 0, false
	}
	v, ok := c.V.cache[envIdx]
	if !ok {
		v = refir.Adjust(refir.Eval(c.V.Own, env), c.V.W)
		c.V.cache[envIdx] = v
	}
	bs := refir.ToLE(v, c.V.W)
	return bs[c.Idx], true
}

// Addrs returns the sorted visible addresses.
func (s *Shadow) Addrs() []uint64 {
	set := map[uint64]struct{}{}
	for t := s; t != nil; t = t.Base {
		for a := range t.Cells {
			set[a] = struct{}{}
		}
	}
	out := make([]uint64, 0, len(set))
	for a := range set {
		out = append(out, a)
	}
	sort.Slice(out, func(i, j int) bool { return out[i] < out[j] })
	return out
}

// Runs returns the visible address set as canonical [begin,end) runs.
func (s *Shadow) Runs() [][2]uint64 {
	as := s.Addrs()
	var out [][2]uint64
	for i := 0; i < len(as); {
		j := i
		for j+1 < len(as) && as[j+1] == as[j]+1 {
			j++
		}
		out = append(out, [2]uint64{as[i], as[j] + 1})
		i = j + 1
	}
	return out
}

// MissingRuns returns the runs of [addr, addr+w) not visible.
func (s *Shadow) MissingRuns(addr uint64, w int) [][2]uint64 {
	var out [][2]uint64
	for i := 0; i < w; {
		if _, ok := s.Get(addr + uint64(i)); ok {
			i++
			continue
		}
		j := i
		for j < w {
			if _, ok := s.Get(addr + uint64(j)); ok {
				break
			}
			j++
		}
		out = append(out, [2]uint64{addr + uint64(i), addr + uint64(j)})
		i = j
	}
	return out
}

// LoadClass classifies a fully available load for the non-triviality rule.
// parts = number of distinct stored values seen; partial = some value is read
// only in part; layers = 1 or 2 (both layers contribute).
func (s *Shadow) LoadClass(addr uint64, w int) (parts int, partial bool, layers int) {
	seen := map[*Value]int{}
	upper, lower := false, false
	for i := 0; i < w; i++ {
		a := addr + uint64(i)
		if c, ok := s.Cells[a]; ok {
			seen[c.V]++
			upper = true
		} else if c, ok := s.Get(a); ok {
			seen[c.V]++
			lower = true
		}
	}
	for v, n := range seen {
		if n != v.W {
			partial = true
		}
	}
	layers = 0
	if upper {
		layers++
	}
	if lower {
		layers++
	}
	return len(seen), partial, layers
}

// FmtRuns prints runs.
func FmtRuns(rs [][2]uint64) string {
	if len(rs) == 0 {
		return "∅"
	}
	var sb strings.Builder
	for _, r := range rs {
		fmt.Fprintf(&sb, "[%#x,%#x)", r[0], r[1])
	}
	return sb.String()
}

// MapRuns converts an interval map to runs and reports non-canonical form.
func MapRuns(m interval.Map[model.Addr]) ([][2]uint64, string) {
	var out [][2]uint64
	for k, iv := range m.Intervals() {
		b, e := uint64(iv.Begin()), uint64(iv.End())
		out = append(out, [2]uint64{b, e})
		if b >= e {
			return out, fmt.Sprintf("empty interval [%#x,%#x)", b, e)
		}
		if k > 0 && out[k-1][1] >= b {
			return out, "intervals unsorted, overlapping or adjacent: " + FmtRuns(out)
		}
	}
	return out, ""
}

func runsEqual(a, b [][2]uint64) bool {
	if len(a) != len(b) {
		return false
	}
	for i := range a {
		if a[i] != b[i] {
			return false
		}
	}
	return true
}

// Checker ties a product memory to its shadow.
type Checker struct {
	C      *mon.Case
	Prefix string // check id prefix, e.g. "C14"
	Mem    memory.Memory
	Sh     *Shadow
	Envs   []refir.Env
	Hist   *[]string // operation history for witnesses
	Feat   map[string]string
	// returned expressions and their prints (immutability canary)
	ret      []expr.Expr
	retPrint []string
	// statistics
	LoadsOK, LoadsMissing, LoadsNontrivial int
}

func (k *Checker) hist() string {
	if k.Hist == nil {
		return ""
	}
	h := *k.Hist
	if len(h) > 60 {
		h = h[len(h)-60:]
	}
	return strings.Join(h, "; ")
}

func (k *Checker) feat(extra ...string) map[string]string {
	f := map[string]string{}
	for a, b := range k.Feat {
		f[a] = b
	}
	for i := 0; i+1 < len(extra); i += 2 {
		f[extra[i]] = extra[i+1]
	}
	return f
}

// Load performs and checks one load. It returns false after a violation.
func (k *Checker) Load(addr uint64, w int) bool {
	c := k.C
	var got expr.Expr
	var ok bool
	p, val, stack := mon.Try(func() { got, ok = k.Mem.Load(model.Addr(addr), expr.Width(w)) })
	c.Eval(1)
	op := fmt.Sprintf("load(%#x,%d)", addr, w)
	if p {
		c.Fail(k.Prefix+".load.panic", k.feat("site", mon.PanicSite(stack)), "%s panicked: %v\nhistory: %s\n%s", op, val, k.hist(), stack)
		return false
	}
	miss := k.Sh.MissingRuns(addr, w)
	wantOK := len(miss) == 0
	if ok != wantOK {
		c.Fail(k.Prefix+".load.ok", k.feat(), "%s returned ok=%v but shadow missing=%s\nhistory: %s", op, ok, FmtRuns(miss), k.hist())
		return false
	}
	if !ok {
		k.LoadsMissing++
		if got != nil {
			c.Fail(k.Prefix+".load.nonnil", k.feat(), "%s failed but returned a non-nil expression\nhistory: %s", op, k.hist())
			return false
		}
		return true
	}
	k.LoadsOK++
	if got == nil {
		c.Fail(k.Prefix+".load.nil", k.feat(), "%s ok but nil expression\nhistory: %s", op, k.hist())
		return false
	}
	if int(got.Width()) != w {
		c.Fail(k.Prefix+".load.width", k.feat(), "%s returned width %d: %s\nhistory: %s", op, got.Width(), clip(refir.String(got)), k.hist())
		return false
	}
	for ei, env := range k.Envs {
		var gv *big.Int
		p, val, stack := mon.Try(func() { gv = refir.Eval(got, env) })
		if p {
			c.Fail(k.Prefix+".load.eval-panic", k.feat(), "%s returned an expression that cannot be evaluated: %v\n%s", op, val, stack)
			return false
		}
		want := make([]byte, w)
		for i := 0; i < w; i++ {
			want[i], _ = k.Sh.Byte(addr+uint64(i), env, ei)
		}
		if gv.Cmp(refir.FromLE(want)) != 0 {
			c.Fail(k.Prefix+".load.value", k.feat(), "%s = %s evaluates to %x (env %d), shadow bytes (LE) %x\nhistory: %s", op, clip(refir.String(got)), refir.ToLE(gv, w), ei, want, k.hist())
			return false
		}
	}
	if len(k.ret) < 200 {
		k.ret = append(k.ret, got)
		k.retPrint = append(k.retPrint, refir.String(got))
	}
	parts, partial, layers := k.Sh.LoadClass(addr, w)
	if parts >= 2 || partial || layers >= 2 {
		k.LoadsNontrivial++
	}
	return true
}

func clip(s string) string {
	if len(s) > 900 {
		return s[:900] + "..."
	}
	return s
}

// Missing performs and checks one Missing query.
func (k *Checker) Missing(addr uint64, w int) bool {
	c := k.C
	var m interval.Map[model.Addr]
	p, val, stack := mon.Try(func() { m = k.Mem.Missing(model.Addr(addr), expr.Width(w)) })
	c.Eval(1)
	op := fmt.Sprintf("missing(%#x,%d)", addr, w)
	if p {
		c.Fail(k.Prefix+".missing.panic", k.feat("site", mon.PanicSite(stack)), "%s panicked: %v\nhistory: %s\n%s", op, val, k.hist(), stack)
		return false
	}
	got, msg := MapRuns(m)
	want := k.Sh.MissingRuns(addr, w)
	if msg != "" {
		c.Fail(k.Prefix+".missing.form", k.feat(), "%s: %s\nhistory: %s", op, msg, k.hist())
		return false
	}
	if !runsEqual(got, want) {
		c.Fail(k.Prefix+".missing.result", k.feat(), "%s = %s, shadow %s\nhistory: %s", op, FmtRuns(got), FmtRuns(want), k.hist())
		return false
	}
	return true
}

// Blocks checks Blocks() against the shadow's address set.
func (k *Checker) Blocks() bool {
	c := k.C
	var m interval.Map[model.Addr]
	p, val, stack := mon.Try(func() { m = k.Mem.Blocks() })
	c.Eval(1)
	if p {
		c.Fail(k.Prefix+".blocks.panic", k.feat("site", mon.PanicSite(stack)), "Blocks() panicked: %v\nhistory: %s\n%s", val, k.hist(), stack)
		return false
	}
	got, msg := MapRuns(m)
	want := k.Sh.Runs()
	if msg != "" {
		c.Fail(k.Prefix+".blocks.form", k.feat(), "Blocks(): %s\nhistory: %s", msg, k.hist())
		return false
	}
	if !runsEqual(got, want) {
		c.Fail(k.Prefix+".blocks.result", k.feat(), "Blocks() = %s, shadow %s\nhistory: %s", FmtRuns(got), FmtRuns(want), k.hist())
		return false
	}
	return true
}

// Store performs a store on both sides.
func (k *Checker) Store(addr uint64, ex expr.Expr, w int) bool {
	c := k.C
	p, val, stack := mon.Try(func() { k.Mem.Store(model.Addr(addr), ex, expr.Width(w)) })
	c.Eval(1)
	if p {
		c.Fail(k.Prefix+".store.panic", k.feat("site", mon.PanicSite(stack)), "store(%#x,%s,%d) panicked: %v\nhistory: %s\n%s", addr, clip(refir.String(ex)), w, val, k.hist(), stack)
		return false
	}
	k.Sh.Store(addr, ex, w)
	return true
}

// Canaries re-prints every value handed in or returned and compares.
func (k *Checker) Canaries() bool {
	for t := k.Sh; t != nil; t = t.Base {
		for _, v := range t.Vals {
			if refir.String(v.Ex) != v.Print {
				k.C.Fail(k.Prefix+".alias.stored", k.feat(), "a value handed to the memory changed: was %s, now %s\nhistory: %s", clip(v.Print), clip(refir.String(v.Ex)), k.hist())
				return false
			}
		}
	}
	for i, e := range k.ret {
		if refir.String(e) != k.retPrint[i] {
			k.C.Fail(k.Prefix+".alias.returned", k.feat(), "a value returned by the memory changed: was %s, now %s\nhistory: %s", clip(k.retPrint[i]), clip(refir.String(e)), k.hist())
			return false
		}
	}
	if string(expr.Zero.Bytes()) != "\x00" || string(expr.One.Bytes()) != "\x01" {
		k.C.Fail(k.Prefix+".alias.global", k.feat(), "expr.Zero/expr.One changed: %x %x\nhistory: %s", expr.Zero.Bytes(), expr.One.Bytes(), k.hist())
		// restore the shared constants so that later cases are judged on their own
		expr.Zero.Bytes()[0], expr.One.Bytes()[0] = 0, 1
		return false
	}
	return true
}
