package depgen

import (
	"fmt"
	"math/big"

	"mltwist/internal/deps"
	"mltwist/internal/emulator"
	"mltwist/internal/state"
	"mltwist/pkg/expr"
	"mltwist/pkg/model"
	"mltwist/verifh/mon"
	"mltwist/verifh/refir"
)

// Outcome of running a block: registers, memory and control transfer.
type Outcome struct {
	State string // fingerprint of explicit register/memory writes (IP excluded)
	Next  string // "fallthrough", "jump <addr>" or "stopped at <i>: ..."
}

func (o Outcome) String() string { return o.Next + " | " + o.State }

// final normalises a state: values are compared through the base, so only keys and
// final values matter. Registers/bytes written back to their base value still count
// as explicit writes; to compare behaviours both orders are read through fully.
func finalState(st *refir.State, keys map[string]bool, addrs map[string]map[string]bool) string {
	s := ""
	ks := sortedKeys(keys)
	for _, k := range ks {
		s += fmt.Sprintf("%s=%x;", k, st.Reg(k))
	}
	for _, mk := range sortedKeys2(addrs) {
		for _, a := range sortedKeys(addrs[mk]) {
			ai, _ := new(big.Int).SetString(a, 10)
			s += fmt.Sprintf("%s[%s]=%02x;", mk, a, st.Mem(mk, ai))
		}
	}
	return s
}

func sortedKeys(m map[string]bool) []string {
	out := make([]string, 0, len(m))
	for k := range m {
		out = append(out, k)
	}
	for i := 1; i < len(out); i++ {
		for j := i; j > 0 && (len(out[j]) < len(out[j-1]) || len(out[j]) == len(out[j-1]) && out[j] < out[j-1]); j-- {
			out[j], out[j-1] = out[j-1], out[j]
		}
	}
	return out
}

func sortedKeys2(m map[string]map[string]bool) []string {
	t := map[string]bool{}
	for k := range m {
		t[k] = true
	}
	return sortedKeys(t)
}

// RunRef executes instructions in the given order with the reference IR
// semantics. An IP write equal to the instruction's original fall-through address
// is a fall through; any other IP write transfers control and ends the run.
func RunRef(order []Ins, blockEnd uint64, env refir.Env) (*refir.State, string) {
	st := refir.NewState(env)
	ip := string(expr.IPKey)
	for i, in := range order {
		st.Apply(in.Effects)
		if v, ok := st.Regs[ip]; ok {
			delete(st.Regs, ip)
			if !(v.IsUint64() && v.Uint64() == in.End()) {
				if i != len(order)-1 {
					return st, fmt.Sprintf("jump %#x from position %d", v, i)
				}
				return st, fmt.Sprintf("jump %#x", v)
			}
		}
	}
	return st, "fallthrough"
}

// CompareRef runs both orders and reports a difference.
func CompareRef(orig, cur []Ins, blockEnd uint64, env refir.Env) string {
	a, na := RunRef(orig, blockEnd, env)
	b, nb := RunRef(cur, blockEnd, env)
	keys := map[string]bool{}
	addrs := map[string]map[string]bool{}
	for _, s := range []*refir.State{a, b} {
		for k := range s.Regs {
			keys[k] = true
		}
		for mk, mm := range s.Mems {
			if addrs[mk] == nil {
				addrs[mk] = map[string]bool{}
			}
			for ad := range mm {
				addrs[mk][ad] = true
			}
		}
	}
	fa, fb := finalState(a, keys, addrs), finalState(b, keys, addrs)
	if na != nb {
		return fmt.Sprintf("control transfer differs: original order %q, current order %q", na, nb)
	}
	if fa != fb {
		return fmt.Sprintf("final state differs:\n original order: %s\n current order:  %s", fa, fb)
	}
	return ""
}

// envProvider adapts a refir.Env to the emulator's StateProvider.
type envProvider struct{ env refir.Env }

func (p envProvider) Register(key expr.Key, w expr.Width) expr.Const {
	return expr.NewConst(refir.ToLE(refir.Adjust(p.env.Reg(string(key)), int(w)), int(w)), w)
}

func (p envProvider) Memory(key expr.Key, addr model.Addr, w expr.Width) expr.Const {
	bs := make([]byte, w)
	for i := range bs {
		bs[i] = p.env.Mem(string(key), new(big.Int).SetUint64(uint64(addr)+uint64(i)))
	}
	return expr.NewConst(bs, w)
}

// RunEmu steps the real emulator n times from begin and returns a fingerprint of
// the final state (all registers incl. IP, all stored memory blocks).
func RunEmu(code *deps.Code, begin uint64, n int, env refir.Env) (string, string) {
	st := state.New()
	var emu *emulator.Emulator
	var out string
	pn, val, stack := mon.Try(func() {
		emu = emulator.New(code, model.Addr(begin), envProvider{env}, st)
		for i := 0; i < n; i++ {
			if _, err := emu.Step(); err != nil {
				out = fmt.Sprintf("step %d failed: %v", i, err)
				return
			}
		}
	})
	if pn {
		return "", fmt.Sprintf("emulator panicked: %v\n%s", val, stack)
	}
	if out != "" {
		return out, ""
	}
	keys := map[string]bool{}
	for k := range st.Regs.Values() {
		keys[string(k)] = true
	}
	s := ""
	for _, k := range sortedKeys(keys) {
		v, _ := st.Regs.Load(expr.Key(k), 8)
		s += fmt.Sprintf("%s=%s;", k, refir.String(v))
	}
	for _, mk := range Mems {
		m, ok := st.Mems[expr.Key(mk)]
		if !ok {
			continue
		}
		for _, iv := range m.Blocks().Intervals() {
			for a := iv.Begin(); a < iv.End(); a++ {
				e, _ := m.Load(a, 1)
				s += fmt.Sprintf("%s[%#x]=%x;", mk, a, refir.Eval(e, refir.HashEnv{Mode: 1}))
			}
		}
	}
	return s, ""
}
