// Package depgen generates synthetic (non-RISC-V) instruction streams for the
// dependency / basic-block monitors and extracts, with its own traversal, the facts
// the oracles need (read/write sets, jump alternatives).
package depgen

import (
	"fmt"
	"math/big"
	"math/rand"
	"sort"
	"strings"

	"mltwist/internal/parser"
	"mltwist/pkg/expr"
	"mltwist/pkg/model"
	"mltwist/verifh/refir"
)

type det struct{ name, text string }

func (d det) Name() string   { return d.name }
func (d det) String() string { return d.text }

// Facts are derived from the effects by an own traversal (not the product's).
type Facts struct {
	RegsRead, RegsWritten map[string]bool
	MemLoad, MemStore     map[string]bool
	// ConstTargets are constant jump targets other than the fall-through address;
	// Indirect is set when some alternative is not constant.
	ConstTargets []uint64
	Indirect     bool
	WritesIP     bool
}

// RealJump reports whether the instruction has a possible target other than the
// next instruction.
func (f Facts) RealJump() bool { return f.Indirect || len(f.ConstTargets) > 0 }

// alternatives enumerates the condition-free alternatives of e (own
// implementation of the statement of C13).
func alternatives(e expr.Expr) []expr.Expr {
	switch x := e.(type) {
	case expr.Const, expr.RegLoad:
		return []expr.Expr{e}
	case expr.MemLoad:
		var out []expr.Expr
		for _, a := range alternatives(x.Addr()) {
			out = append(out, expr.NewMemLoad(x.Key(), a, x.Width()))
		}
		return out
	case expr.Binary:
		var out []expr.Expr
		for _, a := range alternatives(x.Arg1()) {
			for _, b := range alternatives(x.Arg2()) {
				out = append(out, expr.NewBinary(x.Op(), a, b, x.Width()))
			}
		}
		return out
	case expr.Less:
		var out []expr.Expr
		for _, br := range []expr.Expr{x.ExprTrue(), x.ExprFalse()} {
			for _, a := range alternatives(br) {
				// adjust to the width of the conditional
				out = append(out, expr.NewBinary(expr.Add, a, expr.NewConst(nil, 1), x.Width()))
			}
		}
		return out
	}
	panic("depgen: unknown expr")
}

// Analyse computes the facts of an instruction at [addr, addr+length).
func Analyse(effects []expr.Effect, addr uint64, length int) Facts {
	f := Facts{RegsRead: map[string]bool{}, RegsWritten: map[string]bool{}, MemLoad: map[string]bool{}, MemStore: map[string]bool{}}
	var walk func(e expr.Expr)
	walk = func(e expr.Expr) {
		switch x := e.(type) {
		case expr.RegLoad:
			f.RegsRead[string(x.Key())] = true
		case expr.MemLoad:
			f.MemLoad[string(x.Key())] = true
		}
		for _, c := range refir.Children(e) {
			walk(c)
		}
	}
	end := addr + uint64(length)
	seen := map[uint64]bool{}
	for _, ef := range effects {
		switch x := ef.(type) {
		case expr.RegStore:
			f.RegsWritten[string(x.Key())] = true
			walk(x.Value())
			if x.Key() == expr.IPKey {
				f.WritesIP = true
				for _, a := range alternatives(x.Value()) {
					if !refir.Closed(a) {
						f.Indirect = true
						continue
					}
					v := refir.Eval(a, refir.HashEnv{Mode: 1})
					if !v.IsUint64() {
						f.Indirect = true // does not denote an address; treated as non-constant
						continue
					}
					if t := v.Uint64(); t != end && !seen[t] {
						seen[t] = true
						f.ConstTargets = append(f.ConstTargets, t)
					}
				}
			}
		case expr.MemStore:
			f.MemStore[string(x.Key())] = true
			walk(x.Addr())
			walk(x.Value())
		}
	}
	sort.Slice(f.ConstTargets, func(i, j int) bool { return f.ConstTargets[i] < f.ConstTargets[j] })
	return f
}

// Ins is one synthetic instruction.
type Ins struct {
	Addr    uint64
	Len     int
	Type    model.Type
	Effects []expr.Effect
	Text    string
	Facts   Facts
}

func (i Ins) End() uint64 { return i.Addr + uint64(i.Len) }

// Parser converts to the product's input type.
func (i Ins) Parser() parser.Instruction {
	bs := make([]byte, i.Len)
	for k := range bs {
		bs[k] = byte(i.Addr) + byte(k)
	}
	return parser.Instruction{Type: i.Type, Addr: model.Addr(i.Addr), Bytes: bs, Effects: i.Effects,
		Details: det{strings.Fields(i.Text + " ?")[0], i.Text}}
}

func (i Ins) String() string {
	t := ""
	if i.Type != 0 {
		t = fmt.Sprintf(" type=%d", i.Type)
	}
	return fmt.Sprintf("%#x+%d%s %s", i.Addr, i.Len, t, i.Text)
}

// Listing prints a stream.
func Listing(is []Ins) string {
	var sb strings.Builder
	for _, i := range is {
		sb.WriteString(i.String())
		sb.WriteString("\n")
	}
	return sb.String()
}

var Regs = []string{"r0", "r1", "r2", "r3"}
var AddrRegs = []string{"a0", "a1"}
// the second memory space is deliberately named like a register: registers and memory
// spaces are separate namespaces
var Mems = []string{"m0", "r1"}

func c8(v uint64) expr.Const { return expr.NewConstUint(v, 8) }
func rl(k string) expr.Expr  { return expr.NewRegLoad(expr.NewKey(k), 8) }

var ops = []expr.BinaryOp{expr.Add, expr.Nand, expr.Mul, expr.Rsh, expr.Lsh}
var opName = map[expr.BinaryOp]string{expr.Add: "add", expr.Nand: "nand", expr.Mul: "mul", expr.Rsh: "rsh", expr.Lsh: "lsh"}

// Body generates a non-jumping instruction at addr with the given length.
// density tunes how many registers are shared (few registers => many deps).
func Body(r *rand.Rand, addr uint64, length int, nregs int) Ins {
	reg := func() string { return Regs[r.Intn(nregs)] }
	in := Ins{Addr: addr, Len: length}
	switch k := r.Intn(100); {
	case k < 40: // register operation
		rd, a, b := reg(), reg(), reg()
		op := ops[r.Intn(len(ops))]
		var bv expr.Expr = rl(b)
		bt := b
		if r.Intn(3) == 0 {
			cv := uint64(r.Intn(9))
			bv, bt = c8(cv), fmt.Sprint(cv)
		}
		in.Effects = []expr.Effect{expr.NewRegStore(expr.NewBinary(op, rl(a), bv, 8), expr.NewKey(rd), 8)}
		in.Text = fmt.Sprintf("%s %s, %s, %s", opName[op], rd, a, bt)
	case k < 50: // constant load
		rd := reg()
		v := uint64(r.Intn(1000))
		in.Effects = []expr.Effect{expr.NewRegStore(c8(v), expr.NewKey(rd), 8)}
		in.Text = fmt.Sprintf("li %s, %d", rd, v)
	case k < 65: // load
		rd, m, ar := reg(), Mems[r.Intn(2)], AddrRegs[r.Intn(2)]
		off := uint64(r.Intn(24))
		w := expr.Width([]int{1, 2, 4, 8}[r.Intn(4)])
		ld := expr.NewMemLoad(expr.NewKey(m), expr.NewBinary(expr.Add, rl(ar), c8(off), 8), w)
		in.Effects = []expr.Effect{expr.NewRegStore(ld, expr.NewKey(rd), 8)}
		in.Text = fmt.Sprintf("ld%d %s, %s[%s+%d]", w, rd, m, ar, off)
	case k < 80 && k >= 65: // store
		rs, m, ar := reg(), Mems[r.Intn(2)], AddrRegs[r.Intn(2)]
		off := uint64(r.Intn(24))
		w := expr.Width([]int{1, 2, 4, 8}[r.Intn(4)])
		in.Effects = []expr.Effect{expr.NewMemStore(rl(rs), expr.NewKey(m), expr.NewBinary(expr.Add, rl(ar), c8(off), 8), w)}
		in.Text = fmt.Sprintf("st%d %s[%s+%d], %s", w, m, ar, off, rs)
	case k < 82 && k >= 80: // two stores by one instruction: the same space twice, or both spaces
		rs, ar := reg(), AddrRegs[r.Intn(2)]
		m1 := Mems[r.Intn(2)]
		m2 := m1
		if r.Intn(2) == 0 {
			m2 = Mems[r.Intn(2)]
		}
		o1, o2 := uint64(r.Intn(24)), uint64(r.Intn(24))
		w := expr.Width([]int{1, 2, 4, 8}[r.Intn(4)])
		in.Effects = []expr.Effect{
			expr.NewMemStore(rl(rs), expr.NewKey(m1), expr.NewBinary(expr.Add, rl(ar), c8(o1), 8), w),
			expr.NewMemStore(rl(rs), expr.NewKey(m2), expr.NewBinary(expr.Add, rl(ar), c8(o2), 8), w)}
		in.Text = fmt.Sprintf("stp%d %s[%s+%d], %s[%s+%d], %s", w, m1, ar, o1, m2, ar, o2, rs)
	case k < 84 && k >= 82: // two register writes by one instruction (values from the pre-state)
		a, b := reg(), reg()
		in.Effects = []expr.Effect{expr.NewRegStore(rl(b), expr.NewKey(a), 8), expr.NewRegStore(rl(a), expr.NewKey(b), 8)}
		in.Text = fmt.Sprintf("swap %s, %s", a, b)
	case k < 88 && k >= 84: // load + store (atomic-like), two effects
		rd, rs, m, ar := reg(), reg(), Mems[r.Intn(2)], AddrRegs[r.Intn(2)]
		a := expr.NewBinary(expr.Add, rl(ar), c8(uint64(r.Intn(3))*8), 8)
		ld := expr.NewMemLoad(expr.NewKey(m), a, 8)
		in.Effects = []expr.Effect{expr.NewRegStore(ld, expr.NewKey(rd), 8),
			expr.NewMemStore(expr.NewBinary(expr.Add, ld, rl(rs), 8), expr.NewKey(m), a, 8)}
		in.Text = fmt.Sprintf("amo %s, %s, %s[%s]", rd, rs, m, ar)
		if r.Intn(2) == 0 {
			in.Type = model.TypeMemOrder
		}
	case k < 90 && k >= 88: // memory ordering without effects
		in.Type = model.TypeMemOrder
		in.Text = "fence"
	case k < 92 && k >= 90:
		in.Type = model.TypeSyscall
		in.Text = "syscall"
	case k < 94 && k >= 92:
		in.Type = model.TypeCPUStateChange
		rd := reg()
		in.Effects = []expr.Effect{expr.NewRegStore(rl(rd), "csr", 8)}
		in.Text = "csrw " + rd
	case k < 97: // jump to the next instruction: an IP write that is not a jump
		in.Effects = []expr.Effect{expr.NewRegStore(c8(addr+uint64(length)), expr.IPKey, 8)}
		in.Text = "jnext"
		if r.Intn(2) == 0 {
			a, b := reg(), reg()
			nx := c8(addr + uint64(length))
			in.Effects = []expr.Effect{expr.NewRegStore(expr.NewLess(rl(a), rl(b), nx, nx, 8), expr.IPKey, 8)}
			in.Text = fmt.Sprintf("bnext %s, %s", a, b)
		}
	default: // writes the address register (address dependencies)
		ar, a := AddrRegs[r.Intn(2)], reg()
		in.Effects = []expr.Effect{expr.NewRegStore(expr.NewBinary(expr.Add, rl(ar), expr.NewBinary(expr.Nand, rl(a), c8(0xfffffffffffffff8), 8), 8), expr.NewKey(ar), 8)}
		in.Text = fmt.Sprintf("adda %s, %s", ar, a)
	}
	in.Facts = Analyse(in.Effects, addr, length)
	return in
}

// Jump generates a jumping instruction with the given candidate targets.
func Jump(r *rand.Rand, addr uint64, length int, targets []uint64) Ins {
	in := Ins{Addr: addr, Len: length}
	pick := func() uint64 { return targets[r.Intn(len(targets))] }
	next := addr + uint64(length)
	switch r.Intn(6) {
	case 0: // unconditional constant jump
		t := pick()
		in.Effects = []expr.Effect{expr.NewRegStore(c8(t), expr.IPKey, 8)}
		in.Text = fmt.Sprintf("j %#x", t)
	case 1: // conditional: taken target / fall through
		t := pick()
		a, b := Regs[r.Intn(4)], Regs[r.Intn(4)]
		in.Effects = []expr.Effect{expr.NewRegStore(expr.NewLess(rl(a), rl(b), c8(t), c8(next), 8), expr.IPKey, 8)}
		in.Text = fmt.Sprintf("blt %s, %s, %#x", a, b, t)
	case 2: // conditional with both arms constant and different from next
		t1, t2 := pick(), pick()
		a, b := Regs[r.Intn(4)], Regs[r.Intn(4)]
		in.Effects = []expr.Effect{expr.NewRegStore(expr.NewLess(rl(a), rl(b), c8(t1), c8(t2), 8), expr.IPKey, 8)}
		in.Text = fmt.Sprintf("bsel %s, %s, %#x, %#x", a, b, t1, t2)
	case 3: // indirect
		a := Regs[r.Intn(4)]
		in.Effects = []expr.Effect{expr.NewRegStore(rl(a), expr.IPKey, 8)}
		in.Text = "jr " + a
	case 4: // call: link register + constant target
		t := pick()
		in.Effects = []expr.Effect{expr.NewRegStore(c8(t), expr.IPKey, 8), expr.NewRegStore(c8(next), "r0", 8)}
		in.Text = fmt.Sprintf("call %#x", t)
	default: // conditional indirect / fall through
		a, b := Regs[r.Intn(4)], Regs[r.Intn(4)]
		in.Effects = []expr.Effect{expr.NewRegStore(expr.NewLess(rl(a), c8(5), rl(b), c8(next), 8), expr.IPKey, 8)}
		in.Text = fmt.Sprintf("bri %s, %s", a, b)
	}
	in.Facts = Analyse(in.Effects, addr, length)
	return in
}

// Env is a valuation for synthetic streams: address registers point into a small
// window, other registers hashed.
func Env(seed uint64) refir.HashEnv {
	over := map[string]*big.Int{}
	for i, a := range AddrRegs {
		over[a] = new(big.Int).SetUint64(0x4000 + uint64(i)*8 + (seed>>uint(8*i))%16)
	}
	return refir.HashEnv{Seed: seed, RegOverride: over}
}
