package depgen

import (
	"math/rand"

	"mltwist/internal/deps"
	"mltwist/internal/parser"
	"mltwist/pkg/model"
)

// CodeSpec is a generated multi-block code.
type CodeSpec struct {
	Ins    []Ins
	Entry  uint64
	Blocks [][]int // indices into Ins per intended block
}

// GenCode generates nb blocks of 1..maxIns instructions with variable lengths;
// every block but possibly the last ends with a real jump or is followed by a gap.
func GenCode(r *rand.Rand, nb, maxIns, nregs int) CodeSpec {
	var cs CodeSpec
	cur := uint64(0x1000)
	spread := r.Intn(5) == 0
	si := 0
	spreadBases := []uint64{1 << 31, 1<<32 - 8, 1<<63 - 6, 1<<63 + 0x1000, 0xffffffff80000000, 1<<64 - 0x4000}
	if spread && r.Intn(2) == 0 {
		cur = spreadBases[r.Intn(3)]
		si = 3
	}
	type plan struct{ n int }
	plans := make([]plan, nb)
	for i := range plans {
		plans[i].n = 1 + r.Intn(maxIns)
	}
	// first pass: lay out addresses
	type slot struct {
		addr uint64
		l    int
	}
	var slots [][]slot
	for i := range plans {
		var bs []slot
		for k := 0; k < plans[i].n; k++ {
			l := 1 + r.Intn(8)
			if r.Intn(2) == 0 {
				l = 4
			}
			bs = append(bs, slot{cur, l})
			cur += uint64(l)
		}
		slots = append(slots, bs)
		if r.Intn(3) == 0 {
			cur += uint64(1 + r.Intn(9)) // gap after the block
		}
		if spread && i+1 < len(plans) {
			// the next block far away: the blocks of one code lie in both halves of the
			// address space (one of them may straddle 2^63, none wraps around)
			for si < len(spreadBases) && spreadBases[si] <= cur+64 {
				si++
			}
			if si < len(spreadBases) {
				cur = spreadBases[si] + uint64(r.Intn(16))
				si++
			}
		}
	}
	var starts []uint64
	for _, bs := range slots {
		starts = append(starts, bs[0].addr)
	}
	for bi, bs := range slots {
		var idxs []int
		for k, s := range bs {
			last := k == len(bs)-1
			gapAfter := bi+1 < len(slots) && slots[bi+1][0].addr != s.addr+uint64(s.l)
			var in Ins
			if last && (bi == len(slots)-1 && r.Intn(2) == 0 || bi < len(slots)-1 && !gapAfter || gapAfter && r.Intn(2) == 0) {
				in = Jump(r, s.addr, s.l, starts)
				if !in.Facts.RealJump() { // e.g. conditional whose both arms are the next address
					in = Jump(r, s.addr, s.l, []uint64{starts[0]})
					if !in.Facts.RealJump() {
						in = Ins{Addr: s.addr, Len: s.l, Text: "jr r0"}
						in = Jump(rand.New(rand.NewSource(3)), s.addr, s.l, starts)
					}
				}
			} else {
				in = Body(r, s.addr, s.l, nregs)
			}
			idxs = append(idxs, len(cs.Ins))
			cs.Ins = append(cs.Ins, in)
		}
		cs.Blocks = append(cs.Blocks, idxs)
	}
	cs.Entry = starts[r.Intn(len(starts))]
	return cs
}

// Build runs the product's NewCode on the spec.
func (cs CodeSpec) Build() (*deps.Code, error) {
	seq := make([]parser.Instruction, len(cs.Ins))
	for i, in := range cs.Ins {
		seq[i] = in.Parser()
	}
	return deps.NewCode(model.Addr(cs.Entry), seq)
}
