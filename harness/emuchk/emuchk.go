// Package emuchk runs generated RV64IMA programs on the real emulator (assembled the
// way cmd/mltwist assembles it) in lock step with the refrv reference machine and
// an instrumented state provider. It serves C03 (agreement, step records) and C04
// (provider discipline).
package emuchk

import (
	"fmt"
	"math/big"
	"math/rand"
	"sort"
	"strings"

	"mltwist/internal/deps"
	"mltwist/internal/elf"
	"mltwist/internal/emulator"
	"mltwist/internal/parser"
	"mltwist/internal/riscv"
	"mltwist/internal/state"
	"mltwist/internal/state/memory"
	"mltwist/pkg/expr"
	"mltwist/pkg/model"
	"mltwist/verifh/mon"
	"mltwist/verifh/refir"
	"mltwist/verifh/refrv"
	"mltwist/verifh/rvgen"
)

// Code and Data are the addresses of the program and of its data window. They are
// variables so that a run can be placed in the upper half of the address space (SetHigh);
// shards are single-threaded processes and every case sets them first.
var (
	Code uint64 = 0x10000
	Data uint64 = 0x20000
)

// SetHigh places code and data at 0xffffffff8001_0000 / 0xffffffff8002_0000 (what a
// sign-extending lui produces for 0x80020) or back at the usual low addresses.
func SetHigh(on bool) {
	if on {
		Code, Data = 0xffffffff80010000, 0xffffffff80020000
	} else {
		Code, Data = 0x10000, 0x20000
	}
}

const (
	DataImg = 36 // bytes of the data window that belong to the image, as two blocks ...
	DataOff = 12 // ... the first starting this far into the window; layout of the window:
	// unmapped [0,12) | image [12,28) | unmapped [28,32) | image [32,52) | unmapped [52,64)
	DataCut  = 16 // length of the first image block
	DataHole = 4  // unmapped bytes between the two image blocks
	DataWin  = 64
)

var cfg = refrv.Cfg{XLEN: 64, M: true, A: true}
var rvParser = rvgen.Parser(cfg)
var defByName = func() map[string]refrv.Def {
	m := map[string]refrv.Def{}
	for _, d := range refrv.DefsFor(cfg) {
		m[d.Name] = d
	}
	return m
}()

func enc(name string, rd, rs1, rs2 int, imm int64) uint32 {
	d, ok := defByName[name]
	if !ok {
		panic("emuchk: unknown mnemonic " + name)
	}
	w := d.Match
	w = d.SetBits(w, 7, 5, uint32(rd))
	w = d.SetBits(w, 15, 5, uint32(rs1))
	w = d.SetBits(w, 20, 5, uint32(rs2))
	switch d.Fmt {
	case refrv.FmtI, refrv.FmtLoad:
		w = refrv.EncImmI(w, imm)
	case refrv.FmtS:
		w = refrv.EncImmS(w, imm)
	case refrv.FmtB:
		w = refrv.EncImmB(w, imm)
	case refrv.FmtU:
		w = refrv.EncImmU(w, imm)
	case refrv.FmtJ:
		w = refrv.EncImmJ(w, imm)
	case refrv.FmtShift:
		w = d.SetBits(w, 20, 6, uint32(imm))
	case refrv.FmtCSR, refrv.FmtCSRI:
		w = w&0x000fffff | uint32(imm&0xfff)<<20
	}
	return w&^d.Mask | d.Match
}

var aluRR = []string{"add", "sub", "sll", "slt", "sltu", "xor", "srl", "sra", "or", "and", "addw", "subw", "sllw", "srlw", "sraw",
	"mul", "mulh", "mulhsu", "mulhu", "div", "divu", "rem", "remu", "mulw", "divw", "divuw", "remw", "remuw"}
var aluRI = []string{"addi", "slti", "sltiu", "xori", "ori", "andi", "addiw"}
var aluSh = []string{"slli", "srli", "srai", "slliw", "srliw", "sraiw"}
var loads = []struct {
	n string
	w int
}{{"lb", 1}, {"lh", 2}, {"lw", 4}, {"ld", 8}, {"lbu", 1}, {"lhu", 2}, {"lwu", 4}}
var stores = []struct {
	n string
	w int
}{{"sb", 1}, {"sh", 2}, {"sw", 4}, {"sd", 8}}
var amos = []string{"amoswap", "amoadd", "amoxor", "amoand", "amoor", "amomin", "amomax", "amominu", "amomaxu"}
var branches = []string{"beq", "bne", "blt", "bge", "bltu", "bgeu"}

// Program is a generated program.
type Program struct {
	Words []uint32
	Text  []string
}

func (p *Program) add(w uint32, t string) { p.Words = append(p.Words, w); p.Text = append(p.Text, t) }

// work registers x1..x7; x8 = data base; x9 = AMO address; x10 = jalr target
func wreg(r *rand.Rand) int { return 1 + r.Intn(7) }
func sreg(r *rand.Rand) int {
	if r.Intn(8) == 0 {
		return 0
	}
	return wreg(r)
}

// Generate builds a program of about n instructions.
func Generate(r *rand.Rand, n int) *Program {
	p := &Program{}
	p.add(enc("lui", 8, 0, 0, int64(Data)), "lui x8, data")
	slots := n
	// emit pass: branch/jal targets are resolved against the final length, so first choose kinds
	type pend struct {
		idx  int
		name string
		rs1  int
		rs2  int
		rd   int
	}
	var fix []pend
	for len(p.Words) < slots {
		switch k := r.Intn(100); {
		case k < 30:
			nme := aluRR[r.Intn(len(aluRR))]
			rd, a, b := sreg(r), sreg(r), sreg(r)
			p.add(enc(nme, rd, a, b, 0), fmt.Sprintf("%s x%d, x%d, x%d", nme, rd, a, b))
		case k < 42:
			nme := aluRI[r.Intn(len(aluRI))]
			rd, a := sreg(r), sreg(r)
			imm := rvgen.Imm12(r)
			p.add(enc(nme, rd, a, 0, imm), fmt.Sprintf("%s x%d, x%d, %d", nme, rd, a, imm))
		case k < 48:
			nme := aluSh[r.Intn(len(aluSh))]
			rd, a := sreg(r), sreg(r)
			sh := int64(r.Intn(64))
			if nme[len(nme)-1] == 'w' {
				sh &= 31
			}
			p.add(enc(nme, rd, a, 0, sh), fmt.Sprintf("%s x%d, x%d, %d", nme, rd, a, sh))
		case k < 52:
			rd := sreg(r)
			if r.Intn(2) == 0 {
				imm := int64(int32(r.Uint32() & 0xfffff000))
				p.add(enc("lui", rd, 0, 0, imm), fmt.Sprintf("lui x%d, %#x", rd, imm))
			} else {
				imm := int64(int32(r.Uint32() & 0xfffff000))
				p.add(enc("auipc", rd, 0, 0, imm), fmt.Sprintf("auipc x%d, %#x", rd, imm))
			}
		case k < 66:
			l := loads[r.Intn(len(loads))]
			off := int64(r.Intn(DataWin - l.w + 1))
			rd := sreg(r)
			p.add(enc(l.n, rd, 8, 0, off), fmt.Sprintf("%s x%d, %d(x8)", l.n, rd, off))
		case k < 80:
			s := stores[r.Intn(len(stores))]
			off := int64(r.Intn(DataWin - s.w + 1))
			src := sreg(r)
			p.add(enc(s.n, 0, 8, src, off), fmt.Sprintf("%s x%d, %d(x8)", s.n, src, off))
		case k < 86:
			wd, suf := 4, ".w"
			if r.Intn(2) == 0 {
				wd, suf = 8, ".d"
			}
			off := int64(r.Intn(DataWin/wd)) * int64(wd)
			p.add(enc("addi", 9, 8, 0, off), fmt.Sprintf("addi x9, x8, %d", off))
			rd, src := sreg(r), sreg(r)
			switch r.Intn(6) {
			case 0:
				p.add(enc("lr"+suf, rd, 9, 0, 0), fmt.Sprintf("lr%s x%d, (x9)", suf, rd))
			case 1:
				p.add(enc("sc"+suf, rd, 9, src, 0), fmt.Sprintf("sc%s x%d, x%d, (x9)", suf, rd, src))
			default:
				a := amos[r.Intn(len(amos))] + suf
				w := enc(a, rd, 9, src, 0) | uint32(r.Intn(4))<<25 // aq/rl
				p.add(w, fmt.Sprintf("%s x%d, x%d, (x9)", a, rd, src))
			}
		case k < 92:
			b := branches[r.Intn(len(branches))]
			fix = append(fix, pend{len(p.Words), b, sreg(r), sreg(r), 0})
			p.add(0, b)
		case k < 94:
			fix = append(fix, pend{len(p.Words), "jal", 0, 0, []int{0, 1, 5}[r.Intn(3)]})
			p.add(0, "jal")
		case k < 96:
			// computed jump: auipc x10,0 ; addi x10,x10,delta ; jalr rd, imm(x10)
			fix = append(fix, pend{len(p.Words), "jalr3", 0, 0, []int{0, 1, 6}[r.Intn(3)]})
			p.add(0, "auipc")
			p.add(0, "addi")
			p.add(0, "jalr")
		case k < 98:
			csr := []int64{0x300, 0x340, 0xc00, 0xfff, 0x800}[r.Intn(5)]
			nme := []string{"csrrw", "csrrs", "csrrc", "csrrwi", "csrrsi", "csrrci"}[r.Intn(6)]
			rd, a := sreg(r), sreg(r)
			p.add(enc(nme, rd, a, 0, csr), fmt.Sprintf("%s x%d, %#x, %d", nme, rd, csr, a))
		default:
			switch r.Intn(4) {
			case 0:
				p.add(0x0ff0000f, "fence")
			case 1:
				p.add(0x0000100f, "fence.i")
			case 2:
				p.add(0x00000073, "ecall")
			default:
				p.add(0x00100073, "ebreak")
			}
		}
	}
	n = len(p.Words)
	target := func(from int) int {
		// mostly forward, sometimes backward (bounded by the step cap), always a valid start
		if r.Intn(4) == 0 && from > 2 {
			return 1 + r.Intn(from-1)
		}
		if from+1 >= n {
			return n - 1
		}
		return from + 1 + r.Intn(n-from-1)
	}
	for _, f := range fix {
		switch f.name {
		case "jal":
			t := target(f.idx)
			p.Words[f.idx] = enc("jal", f.rd, 0, 0, int64(t-f.idx)*4)
			p.Text[f.idx] = fmt.Sprintf("jal x%d, %+d", f.rd, (t-f.idx)*4)
		case "jalr3":
			t := target(f.idx + 2)
			delta := int64(t-f.idx) * 4
			imm := int64(0)
			switch r.Intn(6) {
			case 0:
				delta += 2 // misaligned: not an instruction start
			case 1:
				delta = int64(n+3-f.idx) * 4 // behind the program
			case 2:
				imm = int64(r.Intn(64)) - 32
				delta -= imm
				if r.Intn(2) == 0 {
					imm |= 1 // low bit must be cleared by jalr
					if imm&1 == 1 {
						delta = delta - 0 // target = (x10+imm)&^1 ; keep delta so that target stays aligned after clearing
					}
				}
			}
			p.Words[f.idx] = enc("auipc", 10, 0, 0, 0)
			p.Text[f.idx] = "auipc x10, 0"
			p.Words[f.idx+1] = enc("addi", 10, 10, 0, delta)
			p.Text[f.idx+1] = fmt.Sprintf("addi x10, x10, %d", delta)
			p.Words[f.idx+2] = enc("jalr", f.rd, 10, 0, imm)
			p.Text[f.idx+2] = fmt.Sprintf("jalr x%d, %d(x10)", f.rd, imm)
		default:
			t := target(f.idx)
			p.Words[f.idx] = enc(f.name, 0, f.rs1, f.rs2, int64(t-f.idx)*4)
			p.Text[f.idx] = fmt.Sprintf("%s x%d, x%d, %+d", f.name, f.rs1, f.rs2, (t-f.idx)*4)
		}
	}
	return p
}

func (p *Program) Bytes() []byte {
	bs := make([]byte, 0, 4*len(p.Words))
	for _, w := range p.Words {
		bs = append(bs, rvgen.LE(w)...)
	}
	return bs
}

func (p *Program) Listing() string {
	var sb strings.Builder
	for i, t := range p.Text {
		fmt.Fprintf(&sb, "%#x: %08x %s\n", Code+uint64(4*i), p.Words[i], t)
	}
	return sb.String()
}

// topPrograms are fixed programs that access the last bytes of the address space
// (including ranges that wrap around 2^64).
var topPrograms = func() []func() *Program {
	mk := func(k int64, st, ld string) func() *Program {
		return func() *Program {
			p := &Program{}
			p.add(enc("addi", 9, 0, 0, -k), fmt.Sprintf("addi x9, x0, %d", -k))
			p.add(enc("addi", 1, 0, 0, 0x5a), "addi x1, x0, 0x5a")
			p.add(enc(st, 0, 9, 1, 0), fmt.Sprintf("%s x1, 0(x9)", st))
			p.add(enc(ld, 2, 9, 0, 0), fmt.Sprintf("%s x2, 0(x9)", ld))
			p.add(enc("addi", 3, 2, 0, 1), "addi x3, x2, 1")
			return p
		}
	}
	return []func() *Program{
		mk(1, "sb", "lbu"), // last byte of the address space
		mk(2, "sh", "lhu"), // last two bytes
		mk(1, "sh", "lhu"), // wraps around
		mk(3, "sw", "lw"),  // wraps around
		mk(8, "sd", "ld"),  // last eight bytes
		mk(16, "sd", "ld"), // control: well below the top
		// load first: the same limitation reached through Sparse.Missing
		func() *Program {
			p := &Program{}
			p.add(enc("addi", 9, 0, 0, -1), "addi x9, x0, -1")
			p.add(enc("lw", 2, 9, 0, 0), "lw x2, 0(x9)")
			p.add(enc("addi", 3, 2, 0, 1), "addi x3, x2, 1")
			return p
		},
		func() *Program {
			p := &Program{}
			p.add(enc("addi", 9, 0, 0, -1), "addi x9, x0, -1")
			p.add(enc("lbu", 2, 9, 0, 0), "lbu x2, 0(x9)")
			p.add(enc("addi", 3, 2, 0, 1), "addi x3, x2, 1")
			return p
		},
	}
}()

// NTopPrograms is the number of fixed top-of-memory programs.
var NTopPrograms = len(topPrograms)

// TopProgram returns the i-th fixed top-of-memory program.
func TopProgram(i int) *Program { return topPrograms[i%len(topPrograms)]() }

// ---------------------------------------------------------------------------

func hash(seed uint64, kind string, k string, a uint64) uint64 {
	x := seed
	for _, b := range []byte(kind + "|" + k) {
		x = (x ^ uint64(b)) * 1099511628211
	}
	x ^= a * 0x9e3779b97f4a7c15
	x ^= x >> 30
	x *= 0xbf58476d1ce4e5b9
	x ^= x >> 27
	x *= 0x94d049bb133111eb
	x ^= x >> 31
	return x
}

// provider is the instrumented state provider.
type provider struct {
	seed     uint64
	regReqs  []string
	memReqs  [][2]uint64 // addr, w
	regWidth []int
}

func (p *provider) regValue(key string) uint64 {
	h := hash(p.seed, "reg", key, 0)
	switch h % 7 {
	case 0:
		return 0
	case 1:
		return ^uint64(0)
	case 2:
		return h & 0xffffffff // upper half zero
	case 3:
		return h | 0xffffffff00000000
	}
	return h
}

func (p *provider) memByte(addr uint64) byte { return byte(hash(p.seed, "mem", "", addr)) }

func (p *provider) Register(key expr.Key, w expr.Width) expr.Const {
	p.regReqs = append(p.regReqs, string(key))
	p.regWidth = append(p.regWidth, int(w))
	v := p.regValue(string(key))
	bs := make([]byte, 8)
	for i := range bs {
		bs[i] = byte(v >> (8 * uint(i)))
	}
	return expr.NewConst(bs, w)
}

func (p *provider) Memory(key expr.Key, addr model.Addr, w expr.Width) expr.Const {
	p.memReqs = append(p.memReqs, [2]uint64{uint64(addr), uint64(w)})
	bs := make([]byte, w)
	for i := range bs {
		bs[i] = p.memByte(uint64(addr) + uint64(i))
	}
	return expr.NewConst(bs, w)
}

func xkey(i int) string { return fmt.Sprintf("x%d", i) }

func xnum(key string) (int, bool) {
	if len(key) < 2 || key[0] != 'x' {
		return 0, false
	}
	n := 0
	for _, ch := range key[1:] {
		if ch < '0' || ch > '9' {
			return 0, false
		}
		n = n*10 + int(ch-'0')
	}
	return n, n < 32
}

func constVal(c expr.Const) *big.Int { return refir.FromLE(c.Bytes()) }

func csrKeyNum(key string) (uint16, bool) {
	// the product spells CSR n as "csr<uint16(sign-extended n)>"
	if !strings.HasPrefix(key, "csr") {
		return 0, false
	}
	var v uint64
	if _, err := fmt.Sscanf(key[3:], "%d", &v); err != nil {
		return 0, false
	}
	return uint16(v) & 0xfff, true
}

// RunCase executes one generated program. prop is "C03" or "C04": only failures
// of that property are reported.
func RunCase(c *mon.Case, prop string) {
	r := c.Rng
	// every fifth case runs in the upper half of the address space
	high := c.Idx%5 == 4 && c.Idx >= NTopPrograms
	SetHigh(high)
	defer SetHigh(false)
	if high {
		c.Count("runs_in_upper_half_of_address_space", 1)
	}
	// the first cases are the fixed top-of-memory programs (C03 only)
	top := prop == "C03" && c.Idx < len(topPrograms)
	var prog *Program
	if top {
		prog = topPrograms[c.Idx]()
	} else {
		prog = Generate(r, 10+r.Intn(50))
	}
	code := prog.Bytes()
	dataImg := make([]byte, DataImg)
	r.Read(dataImg)
	fail := func(id string, feat map[string]string, format string, args ...any) {
		if strings.HasPrefix(id, prop+".") {
			if top {
				f2 := map[string]string{"workload": "top-of-memory"}
				for k, v := range feat {
					f2[k] = v
				}
				feat = f2
			}
			c.Fail(id, feat, "%s\nprogram:\n%s", fmt.Sprintf(format, args...), prog.Listing())
		} else {
			c.Count("other_property_disagreements", 1)
		}
	}

	// ---- assemble like cmd/mltwist
	codeMem, err := elf.VerifNewMemory([]model.Addr{model.Addr(Code)}, [][]byte{code})
	if err != nil {
		c.Fail(prop+".harness", nil, "code memory: %v", err)
		return
	}
	var ins []parser.Instruction
	var dcode *deps.Code
	pn, val, stack := mon.Try(func() {
		ins, err = parser.Parse(codeMem, rvParser)
		if err == nil {
			dcode, err = deps.NewCode(model.Addr(Code), ins)
		}
	})
	if pn {
		fail("C03.build.panic", map[string]string{"site": mon.PanicSite(stack)}, "building the code model panicked: %v\n%s", val, stack)
		return
	}
	if err != nil {
		fail("C03.build.error", nil, "valid program rejected: %v", err)
		return
	}
	imgMem, err := elf.VerifNewMemory([]model.Addr{model.Addr(Code), model.Addr(Data + DataOff), model.Addr(Data + DataOff + DataCut + DataHole)}, [][]byte{code, dataImg[:DataCut], dataImg[DataCut:]})
	if err != nil {
		c.Fail(prop+".harness", nil, "image memory: %v", err)
		return
	}
	blocks := make([]memory.ByteBlock, len(imgMem.Blocks))
	for i, b := range imgMem.Blocks {
		blocks[i] = b
	}
	byteMem, err := memory.NewBytes(blocks)
	if err != nil {
		c.Fail(prop+".harness", nil, "byte memory: %v", err)
		return
	}
	st := &state.State{Regs: state.NewRegMap(), Mems: memory.MemMap{riscv.MemoryKey: memory.NewOverlay(byteMem, memory.NewSparse())}}
	prov := &provider{seed: r.Uint64()}

	// ---- reference machine
	image := map[uint64]byte{}
	for i, b := range code {
		image[Code+uint64(i)] = b
	}
	for i, b := range dataImg {
		a := Data + DataOff + uint64(i)
		if i >= DataCut {
			a += DataHole
		}
		image[a] = b
	}
	refMem := refrv.NewMapMem(func(a uint64) byte {
		if b, ok := image[a]; ok {
			return b
		}
		return prov.memByte(a)
	})
	m := &refrv.Machine{Cfg: cfg, PC: Code, Mem: refMem}
	for i := 1; i < 32; i++ {
		m.X[i] = prov.regValue(xkey(i))
	}
	m.CSR = func(n uint16) uint64 {
		// CSR key spelling of the product; the initial value comes from the provider by key
		return prov.regValue(fmt.Sprintf("csr%d", uint16(int16(n<<4)>>4)))
	}

	// knowledge shadow (C04)
	knownReg := map[string]bool{string(expr.IPKey): true}
	knownMem := map[uint64]bool{}
	for a := range image {
		knownMem[a] = true
	}
	suppliedReg := map[string]bool{}
	suppliedMem := map[uint64]bool{}

	// pre-populated state in some runs
	if r.Intn(3) == 0 {
		for k := 0; k < 1+r.Intn(4); k++ {
			i := wreg(r)
			v := rvgen.RegValue(r, 64)
			st.Regs.Store(expr.Key(xkey(i)), expr.ConstFromUint(v), 8)
			m.X[i] = v
			knownReg[xkey(i)] = true
		}
		for k := 0; k < r.Intn(4); k++ {
			w := []int{1, 2, 4, 8}[r.Intn(4)]
			a := Data + uint64(r.Intn(DataWin-w+1))
			bs := make([]byte, w)
			r.Read(bs)
			st.Mems.Store(riscv.MemoryKey, model.Addr(a), expr.NewConst(bs, expr.Width(w)), expr.Width(w))
			for i, b := range bs {
				refMem.Write(a+uint64(i), b)
				knownMem[a+uint64(i)] = true
			}
		}
		c.Count("prepopulated_runs", 1)
	}
	emu := emulator.New(dcode, model.Addr(Code), prov, st)

	partialOverlapLoad, takenBranch := false, false
	lastStore := map[uint64]int{} // addr -> store id
	storeW := map[int]int{}
	nStores := 0
	steps := 0
	maxSteps := 200
	for ; steps < maxSteps; steps++ {
		pc := m.PC
		inCode := pc >= Code && pc < Code+uint64(len(code)) && (pc-Code)%4 == 0
		var word uint32
		if inCode {
			i := (pc - Code) / 4
			word = prog.Words[i]
		}
		where := func() string {
			if inCode {
				return fmt.Sprintf("step %d at %#x (%s)", steps, pc, prog.Text[(pc-Code)/4])
			}
			return fmt.Sprintf("step %d at %#x (not an instruction start)", steps, pc)
		}
		// domain: an access touching the last byte of the address space (or wrapping
		// around it) is the subject of the dedicated top-of-memory sub-workload; a random
		// run ends here without a verdict.
		if inCode && !top {
			probe := m.Clone(refMem.Clone())
			probe.Step(word)
			top := false
			for _, a := range append(append([]refrv.Access(nil), probe.Log.MemRead...), probe.Log.MemWrite...) {
				if a.Addr+uint64(a.W) < a.Addr || a.Addr+uint64(a.W) == 0 {
					top = true
				}
			}
			if top {
				c.Count("runs_ended_access_at_top_of_memory", 1)
				break
			}
		}
		nReg0, nMem0 := len(prov.regReqs), len(prov.memReqs)
		var srec *emulator.Step
		var serr error
		pn, val, stack := mon.Try(func() { srec, serr = emu.Step() })
		c.Eval(1)
		if pn {
			fail("C03.step.panic", map[string]string{"site": mon.PanicSite(stack)}, "%s: Step panicked: %v\n%s", where(), val, stack)
			return
		}
		// ---- C04: provider discipline for the requests of this step
		for i := nReg0; i < len(prov.regReqs); i++ {
			k := prov.regReqs[i]
			if knownReg[k] {
				what := "known"
				if suppliedReg[k] {
					what = "already supplied"
				}
				fail("C04.register-asked-again", map[string]string{"state": what}, "%s: provider asked for register %s (width %d) although it is %s", where(), k, prov.regWidth[i], what)
				if prop == "C04" {
					return
				}
				// C03 run: a request that breaks the C04 discipline does not end the run;
				// its consequences for the machine state are judged by the C03 comparison below.
				continue
			}
			knownReg[k], suppliedReg[k] = true, true
			c.Count("provider_register_requests", 1)
		}
		for i := nMem0; i < len(prov.memReqs); i++ {
			a, w := prov.memReqs[i][0], prov.memReqs[i][1]
			for j := uint64(0); j < w; j++ {
				if knownMem[a+j] {
					what := "known"
					if suppliedMem[a+j] {
						what = "already supplied"
					}
					fail("C04.memory-asked-again", map[string]string{"state": what}, "%s: provider asked for memory [%#x,%#x) although byte %#x is %s", where(), a, a+w, a+j, what)
					if prop == "C04" {
						return
					}
					continue // C03 run: see above
				}
				knownMem[a+j], suppliedMem[a+j] = true, true
			}
			c.Count("provider_memory_requests", 1)
			if w < 8 {
				c.Count("provider_partial_memory_requests", 1)
			}
		}
		// ---- error iff not at an instruction start
		if !inCode {
			if serr == nil {
				fail("C03.step.no-error", nil, "%s: Step succeeded although the instruction pointer is not at a decoded instruction", where())
				return
			}
			c.Count("runs_ended_outside_code", 1)
			break
		}
		if serr != nil {
			fail("C03.step.error", nil, "%s: Step failed: %v", where(), serr)
			return
		}
		// ---- reference step
		preX := m.X
		pre := m.Clone(refMem.Clone())
		d, _ := m.Step(word)
		lg := m.Log
		selfmod := false
		for _, a := range lg.MemWrite {
			if a.Addr+uint64(a.W) > Code && a.Addr < Code+uint64(len(code)) {
				selfmod = true
			}
		}
		if selfmod {
			c.Count("runs_ended_selfmodifying", 1)
			break
		}
		if lg.IPWritten && m.PC != pc+4 {
			takenBranch = true
		}
		// ---- compare instruction pointer
		var ip uint64
		pn, val, stack = mon.Try(func() { ip = uint64(emu.MustIP()) })
		if pn {
			fail("C03.ip.panic", nil, "%s: MustIP panicked: %v\n%s", where(), val, stack)
			return
		}
		if ip != m.PC {
			fail("C03.ip", map[string]string{"name": d.Name}, "%s: emulator IP %#x, reference %#x", where(), ip, m.PC)
			return
		}
		// ---- compare all known registers
		for k, v := range st.Regs.Values() {
			key := string(k)
			if key == string(expr.IPKey) {
				continue
			}
			cv, ok := v.(expr.Const)
			if !ok {
				fail("C03.reg.nonconst", nil, "%s: register %s holds a non-constant %s", where(), key, refir.String(v))
				return
			}
			var want uint64
			if n, ok := xnum(key); ok {
				want = m.X[n]
			} else if n, ok := csrKeyNum(key); ok {
				want = m.GetCSR(n)
			} else {
				fail("C03.reg.unknown-key", nil, "%s: unexpected register key %q", where(), key)
				return
			}
			if constVal(cv).Cmp(new(big.Int).SetUint64(want)) != 0 {
				id := "C03.reg"
				feat := map[string]string{"name": d.Name}
				if suppliedReg[key] {
					// the location was supplied by the provider and never overwritten
					if prop == "C04" {
						id = "C04.supplied-value"
					}
					feat["supplied"] = "yes"
				}
				fail(id, feat, "%s: register %s = %#x (width %d) in the emulator, reference %#x", where(), key, constVal(cv), cv.Width(), want)
				return
			}
		}
		// ---- step record
		if msg := compareRecord(srec, lg, d, word, preX, m, pre); msg != "" {
			fail("C03.record", map[string]string{"name": d.Name}, "%s: step record: %s", where(), msg)
			return
		}
		// ---- knowledge / memory comparison for touched bytes
		for _, i := range lg.RegWrite {
			knownReg[xkey(i)] = true
			delete(suppliedReg, xkey(i))
		}
		for _, n := range lg.CSRWrite {
			k := fmt.Sprintf("csr%d", uint16(int16(n<<4)>>4))
			knownReg[k] = true
			delete(suppliedReg, k)
		}
		for _, a := range lg.MemRead {
			ids := map[int]int{}
			for j := 0; j < a.W; j++ {
				if id, ok := lastStore[a.Addr+uint64(j)]; ok {
					ids[id]++
				} else {
					ids[-1]++
				}
			}
			for id, n := range ids {
				if id >= 0 && (len(ids) > 1 || n != storeW[id]) {
					partialOverlapLoad = true
				}
			}
		}
		for _, a := range lg.MemWrite {
			nStores++
			storeW[nStores] = a.W
			for j := 0; j < a.W; j++ {
				knownMem[a.Addr+uint64(j)] = true
				delete(suppliedMem, a.Addr+uint64(j))
				lastStore[a.Addr+uint64(j)] = nStores
			}
		}
		if msg, sup := compareMemory(st, refMem, lg, suppliedMem, srec); msg != "" {
			id := "C03.mem"
			if sup && prop == "C04" {
				id = "C04.supplied-value"
			}
			fail(id, map[string]string{"name": d.Name}, "%s: %s", where(), msg)
			return
		}
		c.Count("steps", 1)
	}
	// final sweep over the data window and everything the reference touched
	if msg, _ := sweepMemory(st, refMem, knownMem); msg != "" {
		fail("C03.mem", map[string]string{"name": "final-sweep"}, "after %d steps: %s", steps, msg)
		return
	}
	c.Count("programs", 1)
	if top {
		c.Count("top_of_memory_programs", 1)
	}
	if partialOverlapLoad {
		c.Count("programs_with_partial_overlap_load", 1)
	}
	if takenBranch {
		c.Count("programs_with_taken_branch", 1)
	}
	nontrivial := partialOverlapLoad && takenBranch
	if prop == "C04" {
		nontrivial = len(prov.regReqs)+len(prov.memReqs) > 0 && partialOverlapLoad
	}
	if nontrivial {
		c.Nontrivial(prog.Listing())
	}
	if c.WantSample() && len(prog.Words) < 16 {
		c.Sample(map[string]any{"program": strings.Split(strings.TrimSpace(prog.Listing()), "\n"), "steps": steps,
			"provider_register_requests": len(prov.regReqs), "provider_memory_requests": len(prov.memReqs)})
	}
}

func loadByte(st *state.State, a uint64) (byte, bool, string) {
	var e expr.Expr
	var ok bool
	pn, val, _ := mon.Try(func() { e, ok = st.Mems.Load(riscv.MemoryKey, model.Addr(a), 1) })
	if pn {
		return 0, false, fmt.Sprintf("memory load of %#x panicked: %v", a, val)
	}
	if !ok {
		return 0, false, ""
	}
	// composed loads are legal expressions; evaluate them (closed) with the reference
	if !refir.Closed(e) {
		return 0, false, fmt.Sprintf("memory byte %#x is not constant: %s", a, refir.String(e))
	}
	return byte(refir.Eval(e, refir.HashEnv{Mode: 1}).Uint64()), true, ""
}

func compareMemory(st *state.State, ref *refrv.MapMem, lg refrv.Log, supplied map[uint64]bool, s *emulator.Step) (string, bool) {
	accs := append([]refrv.Access(nil), lg.MemWrite...)
	if len(s.MemLoads) > 0 {
		// the instruction really read memory (reads that cannot influence the state
		// may be skipped by the emulator and are judged by compareRecord)
		accs = append(accs, lg.MemRead...)
	}
	for _, acc := range accs {
		for j := 0; j < acc.W; j++ {
			a := acc.Addr + uint64(j)
			b, ok, msg := loadByte(st, a)
			if msg != "" {
				return msg, false
			}
			if !ok {
				return fmt.Sprintf("memory byte %#x was accessed by the instruction but is not in the emulator memory", a), false
			}
			if want := ref.Read(a); b != want {
				return fmt.Sprintf("memory[%#x] = %#02x in the emulator, reference %#02x", a, b, want), supplied[a]
			}
		}
	}
	return "", false
}

func sweepMemory(st *state.State, ref *refrv.MapMem, known map[uint64]bool) (string, bool) {
	as := make([]uint64, 0, len(known))
	for a := range known {
		if a >= Data-8 && a < Data+DataWin+8 {
			as = append(as, a)
		}
	}
	for a := range ref.Bytes {
		as = append(as, a)
	}
	sort.Slice(as, func(i, j int) bool { return as[i] < as[j] })
	for _, a := range as {
		b, ok, msg := loadByte(st, a)
		if msg != "" {
			return msg, false
		}
		if !ok {
			continue
		}
		if want := ref.Read(a); b != want {
			return fmt.Sprintf("memory[%#x] = %#02x in the emulator, reference %#02x", a, b, want), false
		}
	}
	return "", false
}

func setOf(xs []int) map[string]bool {
	m := map[string]bool{}
	for _, x := range xs {
		m[xkey(x)] = true
	}
	return m
}

// compareRecord checks the step record against the architectural access log.
// outcome summarises what a reference step did (for perturbation tests).
func outcome(m *refrv.Machine, mem *refrv.MapMem) string {
	var sb strings.Builder
	fmt.Fprintf(&sb, "%x|%x|", m.X, m.PC)
	as := make([]uint64, 0, len(mem.Bytes))
	for a := range mem.Bytes {
		as = append(as, a)
	}
	sort.Slice(as, func(i, j int) bool { return as[i] < as[j] })
	for _, a := range as {
		fmt.Fprintf(&sb, "%x=%x,", a, mem.Bytes[a])
	}
	for _, n := range m.CSRWritten() {
		fmt.Fprintf(&sb, "c%x=%x,", n, m.GetCSR(n))
	}
	return sb.String()
}

// regMatters reports whether changing x[i] in the pre-state changes the outcome
// of executing w (so an emulator that is right must have read it).
func regMatters(pre *refrv.Machine, w uint32, i int) bool {
	run := func(v uint64) string {
		mem := pre.Mem.(*refrv.MapMem).Clone()
		mm := pre.Clone(mem)
		mm.X[i] = v
		mm.Step(w)
		mm.X[i] = 0 // the perturbed register itself is not part of the comparison unless written
		return outcome(mm, mem)
	}
	base := pre.X[i]
	ref := func() string {
		mem := pre.Mem.(*refrv.MapMem).Clone()
		mm := pre.Clone(mem)
		mm.Step(w)
		if !contains(mm.Log.RegWrite, i) {
			mm.X[i] = 0
		}
		return outcome(mm, mem)
	}()
	for _, v := range []uint64{base ^ 1, ^base, base ^ 0x8000000000000000, base ^ 0x80000000, base + 0x1234567} {
		mem := pre.Mem.(*refrv.MapMem).Clone()
		mm := pre.Clone(mem)
		mm.X[i] = v
		mm.Step(w)
		if !contains(mm.Log.RegWrite, i) {
			mm.X[i] = 0
		}
		if outcome(mm, mem) != ref {
			return true
		}
	}
	_ = run
	return false
}

// memMatters reports whether changing the bytes of access a changes the outcome.
func memMatters(pre *refrv.Machine, w uint32, a refrv.Access) bool {
	ref := func(flip byte) string {
		mem := pre.Mem.(*refrv.MapMem).Clone()
		if flip != 0 {
			for j := 0; j < a.W; j++ {
				mem.Write(a.Addr+uint64(j), mem.Read(a.Addr+uint64(j))^flip)
			}
		}
		mm := pre.Clone(mem)
		mm.Step(w)
		// the perturbed bytes themselves are excluded unless the instruction wrote them
		written := map[uint64]bool{}
		for _, wr := range mm.Log.MemWrite {
			for j := 0; j < wr.W; j++ {
				written[wr.Addr+uint64(j)] = true
			}
		}
		for j := 0; j < a.W; j++ {
			if !written[a.Addr+uint64(j)] {
				delete(mem.Bytes, a.Addr+uint64(j))
			}
		}
		return outcome(mm, mem)
	}
	base := ref(0)
	for _, f := range []byte{0xff, 0x01, 0x80} {
		if ref(f) != base {
			return true
		}
	}
	return false
}

func contains(xs []int, x int) bool {
	for _, y := range xs {
		if x == y {
			return true
		}
	}
	return false
}

func compareRecord(s *emulator.Step, lg refrv.Log, d refrv.Def, w uint32, preX [32]uint64, m *refrv.Machine, pre *refrv.Machine) string {
	rd := refrv.Rd(w)
	// A read is required only if its value can influence the outcome (decided by
	// perturbing the reference); otherwise the emulator may legitimately skip it.
	csrReadOptional := rd == 0 && (d.Name == "csrrw" || d.Name == "csrrwi")

	// --- register loads
	wantR := setOf(lg.RegRead)
	for _, n := range lg.CSRRead {
		wantR[fmt.Sprintf("csr%d", uint16(int16(n<<4)>>4))] = true
	}
	for k, v := range s.RegLoads {
		key := string(k)
		if !wantR[key] {
			return fmt.Sprintf("reports a read of %s which the instruction does not read", key)
		}
		var pre uint64
		if n, ok := xnum(key); ok {
			pre = preX[n]
		} else {
			continue // CSR pre-value checked through the register comparison
		}
		want := refir.Adjust(new(big.Int).SetUint64(pre), int(v.Width()))
		if constVal(v).Cmp(want) != 0 {
			return fmt.Sprintf("read of %s reported as %#x (width %d), the register held %#x", key, constVal(v), v.Width(), pre)
		}
	}
	for key := range wantR {
		if _, ok := s.RegLoads[expr.Key(key)]; !ok {
			if strings.HasPrefix(key, "csr") {
				if csrReadOptional || d.Name == "csrrw" || d.Name == "csrrwi" && rd == 0 {
					continue
				}
				if rd == 0 && false {
					continue
				}
				return fmt.Sprintf("does not report the read of %s", key)
			}
			n, _ := xnum(key)
			if !regMatters(pre, w, n) {
				continue
			}
			return fmt.Sprintf("does not report the read of %s although its value decides the outcome", key)
		}
	}
	// --- register stores
	wantW := setOf(lg.RegWrite)
	for _, n := range lg.CSRWrite {
		wantW[fmt.Sprintf("csr%d", uint16(int16(n<<4)>>4))] = true
	}
	if lg.IPWritten {
		wantW[string(expr.IPKey)] = true
	}
	for k, v := range s.RegStores {
		key := string(k)
		if !wantW[key] {
			return fmt.Sprintf("reports a write of %s which the instruction does not write", key)
		}
		var post uint64
		if n, ok := xnum(key); ok {
			post = m.X[n]
		} else if key == string(expr.IPKey) {
			post = m.PC
		} else if n, ok := csrKeyNum(key); ok {
			post = m.GetCSR(n)
		}
		if refir.Adjust(constVal(v), 8).Cmp(new(big.Int).SetUint64(post)) != 0 {
			return fmt.Sprintf("write of %s reported as %#x, the instruction writes %#x", key, constVal(v), post)
		}
	}
	for key := range wantW {
		if _, ok := s.RegStores[expr.Key(key)]; !ok {
			if key == string(expr.IPKey) && m.PC == pre.PC+4 {
				continue // falling through to the next instruction need not be reported as a jump
			}
			return fmt.Sprintf("does not report the write of %s", key)
		}
	}
	// --- memory
	accSet := func(as []refrv.Access) map[string]bool {
		m := map[string]bool{}
		for _, a := range as {
			m[fmt.Sprintf("%#x/%d=%#x", a.Addr, a.W, a.Val)] = true
		}
		return m
	}
	recSet := func(as []emulator.MemAccess) (map[string]bool, string) {
		m := map[string]bool{}
		for _, a := range as {
			if a.Key != riscv.MemoryKey {
				return nil, fmt.Sprintf("access to memory space %q", a.Key)
			}
			m[fmt.Sprintf("%#x/%d=%#x", uint64(a.Addr), a.Width(), constVal(a.Value))] = true
		}
		return m, ""
	}
	gotL, msg := recSet(s.MemLoads)
	if msg != "" {
		return msg
	}
	wantL := accSet(lg.MemRead)
	for k := range gotL {
		if !wantL[k] {
			return fmt.Sprintf("reports memory load %s, the instruction loads %v", k, keys(wantL))
		}
	}
	for _, a := range lg.MemRead {
		k := fmt.Sprintf("%#x/%d=%#x", a.Addr, a.W, a.Val)
		if !gotL[k] && memMatters(pre, w, a) {
			return fmt.Sprintf("does not report memory load %s although its value decides the outcome (reported %v)", k, keys(gotL))
		}
	}
	gotS, msg := recSet(s.MemStores)
	if msg != "" {
		return msg
	}
	wantS := accSet(lg.MemWrite)
	if fmt.Sprint(keys(gotS)) != fmt.Sprint(keys(wantS)) {
		return fmt.Sprintf("reports memory stores %v, the instruction stores %v", keys(gotS), keys(wantS))
	}
	return ""
}

func keys(m map[string]bool) []string {
	out := make([]string, 0, len(m))
	for k := range m {
		out = append(out, k)
	}
	sort.Strings(out)
	return out
}
