// Package uichk drives the console UI in-process through the verif hooks: a line
// feeder with exact control over how many lines a command consumes, stdout
// capture, and sessions assembled the way cmd/mltwist assembles them.
package uichk

import (
	"fmt"
	"io"
	"math/rand"
	"os"
	"strings"
	"time"

	"mltwist/internal/consoleui"
	"mltwist/internal/consoleui/disassemble"
	"mltwist/internal/consoleui/emulate"
	"mltwist/internal/consoleui/verifhooks"
	"mltwist/internal/deps"
	"mltwist/internal/elf"
	"mltwist/internal/parser"
	"mltwist/internal/riscv"
	"mltwist/internal/state"
	"mltwist/internal/state/memory"
	"mltwist/pkg/model"
	"mltwist/verifh/emuchk"
	"mltwist/verifh/mon"
	"mltwist/verifh/refrv"
	"mltwist/verifh/rvgen"
)

// Feeder hands the UI exactly one line per Read: queued lines first, then an
// endless supply of Filler. Runaway consumption panics (breaks read loops).
type Feeder struct {
	queue    []string
	Filler   string
	Consumed []string // lines handed out since the last Reset
	Limit    int
	EOF      bool // when set, an empty queue yields io.EOF instead of Filler
	pending  string
}

func (f *Feeder) Push(lines ...string) { f.queue = append(f.queue, lines...) }
func (f *Feeder) Reset()               { f.queue, f.Consumed, f.pending = nil, nil, "" }

func (f *Feeder) Read(p []byte) (int, error) {
	if f.pending != "" { // the rest of a line longer than the reader's buffer
		n := copy(p, f.pending)
		f.pending = f.pending[n:]
		return n, nil
	}
	var l string
	if len(f.queue) > 0 {
		l, f.queue = f.queue[0], f.queue[1:]
	} else if f.EOF {
		return 0, io.EOF
	} else {
		l = f.Filler
	}
	f.Consumed = append(f.Consumed, l)
	if f.Limit > 0 && len(f.Consumed) > f.Limit {
		panic("uichk: runaway input consumption (more than the per-command line limit)")
	}
	l += "\n"
	n := copy(p, l)
	f.pending = l[n:]
	return n, nil
}

// Capture redirects os.Stdout into a file and returns what was written.
type Capture struct {
	f    *os.File
	off  int64
	orig *os.File
}

func NewCapture(dir string) (*Capture, error) {
	f, err := os.CreateTemp(dir, "stdout-*")
	if err != nil {
		return nil, err
	}
	os.Remove(f.Name())
	c := &Capture{f: f, orig: os.Stdout}
	os.Stdout = f
	return c, nil
}

// Take returns everything printed since the previous Take.
func (c *Capture) Take() string {
	end, _ := c.f.Seek(0, io.SeekCurrent)
	if end <= c.off {
		return ""
	}
	n := end - c.off
	if n > 4<<20 {
		n = 4 << 20
	}
	buf := make([]byte, n)
	c.f.ReadAt(buf, c.off)
	c.off = end
	if end > 64<<20 { // recycle the file
		c.f.Truncate(0)
		c.f.Seek(0, io.SeekStart)
		c.off = 0
	}
	return string(buf)
}

var (
	Feed *Feeder
	Out  *Capture
)

// Init installs the feeder and the stdout capture (once per shard process).
func Init() {
	if Feed != nil {
		return
	}
	Feed = &Feeder{Filler: "0", Limit: 400}
	verifhooks.SetInput(Feed)
	dir := os.Getenv("VERIF_DIR")
	if dir == "" {
		dir = "/verif"
	}
	os.MkdirAll(dir+"/work", 0o755)
	var err error
	Out, err = NewCapture(dir + "/work")
	if err != nil {
		panic(err)
	}
}

// Rows counts screen rows in printed text.
func Rows(s string) int {
	n := strings.Count(s, "\n")
	if len(s) > 0 && !strings.HasSuffix(s, "\n") {
		n++
	}
	return n
}

// Session is a UI over a generated program.
type Session struct {
	UI   *consoleui.UI
	Code *deps.Code
	Prog *emuchk.Program
}

var rvParser = rvgen.Parser(refrv.Cfg{XLEN: 64, M: true, A: true})

// BuildCode turns a generated program into the code model.
func BuildCode(prog *emuchk.Program, entry uint64) (*deps.Code, *elf.Memory, error) {
	return BuildCodeAt(prog, emuchk.Code, entry)
}

// HighBases are code addresses in the upper half of the 64-bit address space (and one
// straddling 2^63); the generated programs are position independent except for their
// data pointer.
var HighBases = []uint64{0xffffffff80000000, 1 << 63, 1<<63 - 8, 1<<64 - 0x1000, 0x7ffffffffffff000}

// PickBase returns the usual code address, or in a quarter of the calls a high one.
func PickBase(r *rand.Rand) uint64 {
	if r.Intn(4) == 0 {
		return HighBases[r.Intn(len(HighBases))]
	}
	return emuchk.Code
}

// BuildCodeAt places the program at base.
func BuildCodeAt(prog *emuchk.Program, base, entry uint64) (*deps.Code, *elf.Memory, error) {
	code := prog.Bytes()
	codeMem, err := elf.VerifNewMemory([]model.Addr{model.Addr(base)}, [][]byte{code})
	if err != nil {
		return nil, nil, err
	}
	ins, err := parser.Parse(codeMem, rvParser)
	if err != nil {
		return nil, nil, err
	}
	dcode, err := deps.NewCode(model.Addr(entry), ins)
	if err != nil {
		return nil, nil, err
	}
	data := make([]byte, emuchk.DataImg)
	for i := range data {
		data[i] = byte(i * 7)
	}
	img, err := elf.VerifNewMemory([]model.Addr{model.Addr(emuchk.Data), model.Addr(base)}, [][]byte{data, code})
	return dcode, img, err
}

// NewUI assembles the UI the way cmd/mltwist does.
func NewUI(dcode *deps.Code, img *elf.Memory) (*consoleui.UI, error) {
	blocks := make([]memory.ByteBlock, len(img.Blocks))
	for i, b := range img.Blocks {
		blocks[i] = b
	}
	byteMem, err := memory.NewBytes(blocks)
	if err != nil {
		return nil, err
	}
	emulF := func(p *deps.Code, ip model.Addr) (consoleui.Mode, error) {
		m := memory.NewOverlay(byteMem, memory.NewSparse())
		stat := &state.State{Regs: state.NewRegMap(), Mems: memory.MemMap{riscv.MemoryKey: m}}
		emul, err := emulate.New(p, ip, stat)
		if err != nil {
			return nil, fmt.Errorf("cannot create emulation mode: %w", err)
		}
		return emul, nil
	}
	return consoleui.New(disassemble.New(dcode, emulF))
}

// NewSession generates a program with several blocks of different sizes.
func NewSession(r *rand.Rand, minIns int) (*Session, error) {
	return NewSessionAt(r, minIns, emuchk.Code)
}

// NewSessionAt is NewSession with the code placed at base.
func NewSessionAt(r *rand.Rand, minIns int, base uint64) (*Session, error) {
	var prog *emuchk.Program
	for try := 0; ; try++ {
		prog = emuchk.Generate(r, minIns+r.Intn(40))
		entryIdx := 0
		if r.Intn(2) == 0 {
			entryIdx = r.Intn(len(prog.Words))
		}
		dcode, img, err := BuildCodeAt(prog, base, base+uint64(4*entryIdx))
		if err != nil {
			if try > 20 {
				return nil, err
			}
			continue
		}
		ui, err := NewUI(dcode, img)
		if err != nil {
			return nil, err
		}
		return &Session{UI: ui, Code: dcode, Prog: prog}, nil
	}
}

// ExecTimeout bounds one command.
var ExecTimeout = 30 * time.Second

// Exec feeds one command line (plus answers) to the real processCommand.
type ExecResult struct {
	Out      string
	Err      error
	Panicked bool
	Hung     bool // the command did not return (reported like a crash, PanicVal says so)
	PanicVal any
	Stack    string
	Consumed []string
}

func (s *Session) Exec(line string, answers ...string) ExecResult {
	Feed.Reset()
	Feed.Push(line)
	Feed.Push(answers...)
	Out.Take()
	var res ExecResult
	// the command runs in its own goroutine: a command that never returns (observed with a
	// corrupted cursor: the search loop of 'find' spins for ever) must not hang the shard
	// until the parent's watchdog turns the whole run inconclusive. 30 s for a computation
	// of microseconds; the spinning goroutine is abandoned together with its session.
	type done struct {
		p   bool
		v   any
		st  string
		err error
	}
	ch := make(chan done, 1)
	go func() {
		var d done
		d.p, d.v, d.st = mon.Try(func() { d.err = s.UI.VerifProcessCommand() })
		ch <- d
	}()
	select {
	case d := <-ch:
		res.Panicked, res.PanicVal, res.Stack, res.Err = d.p, d.v, d.st, d.err
	case <-time.After(ExecTimeout):
		res.Hung = true
		res.Panicked, res.PanicVal = true, fmt.Sprintf("the command did not return within %v (no-return)", ExecTimeout)
		res.Stack = "goroutine abandoned\nmltwist/internal/consoleui.(*UI).processCommand(no return)\n"
	}
	res.Out = Out.Take()
	res.Consumed = append([]string(nil), Feed.Consumed...)
	return res
}

// Render prints the screen for a terminal of h rows.
func (s *Session) Render(h int) ExecResult {
	Out.Take()
	var res ExecResult
	res.Panicked, res.PanicVal, res.Stack = mon.Try(func() { res.Err = s.UI.VerifPrintScreen(h) })
	res.Out = Out.Take()
	return res
}

// RenderListing renders the listing text from the public deps API only (the
// statement's structure rule): one header per block in current order with its
// position number and start address, its instructions in current order with text
// and bytes, single blank separators and a final blank line. It also returns the
// line of each instruction by its current address.
func RenderListing(code *deps.Code) (lines []string, lineOfAddr map[uint64]int) {
	lineOfAddr = map[uint64]int{}
	for i, b := range code.Blocks() {
		if i != 0 {
			lines = append(lines, "")
		}
		lines = append(lines, fmt.Sprintf("Block %d: 0x%x", i+1, b.Begin()))
		for _, in := range b.Instructions() {
			var hx []string
			for _, x := range in.Bytes() {
				hx = append(hx, fmt.Sprintf("%02X", x))
			}
			lineOfAddr[uint64(in.Begin())] = len(lines)
			lines = append(lines, fmt.Sprintf("     %-24s | %s", in.String(), strings.Join(hx, " ")))
		}
	}
	lines = append(lines, "")
	return
}
