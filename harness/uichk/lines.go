package uichk

import (
	"fmt"
	"math"
	"math/rand"
	"strconv"
	"strings"
)

// Command tables (my own transcription of the documented commands): key -> kinds
// of the mandatory arguments ('n' number >= 0, 's' string, 'a' address).
var AppCmds = map[string]string{"down": "n", "d": "n", "up": "n", "u": "n", "move": "nn", "mv": "nn", "m": "nn",
	"bounds": "n", "b": "n", "find": "s", "f": "s", "/": "s", "goto": "n", "g": "n", "entrypoint": "", "entry": "",
	"alllines": "", "emulate": "", "emul": "", "e": "", "quit": "", "q": "", "help": "", "h": ""}
var EmuCmds = map[string]string{"forward": "", "fwd": "", "f": "", "step": "", "s": "", "memories": "", "mems": "", "ms": "",
	"memory": "s", "mem": "s", "m": "s", "regmod": "s", "rmod": "s", "quit": "", "q": "", "help": "", "h": ""}
var MemCmds = map[string]string{"down": "n", "d": "n", "up": "n", "u": "n", "goto": "n", "g": "n", "address": "a", "addr": "a", "a": "a",
	"quit": "", "q": "", "help": "", "h": ""}

// CmdTable returns the table of the mode with the given name.
func CmdTable(mode string) map[string]string {
	switch {
	case mode == "app":
		return AppCmds
	case mode == "emulate":
		return EmuCmds
	case strings.HasPrefix(mode, "memview"):
		return MemCmds
	}
	return nil
}

func keysOf(m map[string]string) []string {
	out := make([]string, 0, len(m))
	for k := range m {
		out = append(out, k)
	}
	// deterministic order
	for i := 1; i < len(out); i++ {
		for j := i; j > 0 && out[j] < out[j-1]; j-- {
			out[j], out[j-1] = out[j-1], out[j]
		}
	}
	return out
}

var allKeys = func() []string {
	m := map[string]string{}
	for _, t := range []map[string]string{AppCmds, EmuCmds, MemCmds} {
		for k, v := range t {
			m[k] = v
		}
	}
	return keysOf(m)
}()

func numArg(r *rand.Rand, listingLen int) string {
	switch r.Intn(14) {
	case 0:
		return "0"
	case 1:
		return strconv.Itoa(listingLen)
	case 2:
		return strconv.Itoa(listingLen - 1)
	case 3:
		return strconv.Itoa(listingLen + 1)
	case 4:
		return "-1"
	case 5:
		return strconv.Itoa(math.MaxInt)
	case 6:
		return "9223372036854775808"
	case 7:
		return "18446744073709551616"
	case 8:
		return []string{"abc", "1x", "0x10", "1.5", "", "+3", "1e3", "１", "-0"}[r.Intn(9)]
	case 9:
		return strconv.Itoa(r.Intn(1000000))
	}
	if listingLen <= 0 {
		return "1"
	}
	return strconv.Itoa(r.Intn(listingLen))
}

func strArg(r *rand.Rand) string {
	switch r.Intn(10) {
	case 0:
		return "memory"
	case 1:
		return "x" + strconv.Itoa(r.Intn(12))
	case 2:
		return "#r:w:ip"
	case 3:
		return []string{"(", "[", "*", "a{2", "\\", "(?i)x", ".*", "^$", "x|", "[[:alpha:]]"}[r.Intn(10)]
	case 4:
		return strings.Repeat("a", 1+r.Intn(300))
	case 5:
		return []string{"addi", "Block", "x8", "lui", "sd", "0(", "|"}[r.Intn(7)]
	case 6:
		return "nosuchmemory"
	}
	bs := make([]byte, 1+r.Intn(6))
	for i := range bs {
		bs[i] = byte(33 + r.Intn(94))
	}
	return string(bs)
}

func addrArg(r *rand.Rand) string {
	switch r.Intn(8) {
	case 0:
		return "0x20000"
	case 1:
		return fmt.Sprintf("%d", 0x20000+r.Intn(80))
	case 2:
		return fmt.Sprintf("0x%x", 0x10000+r.Intn(300))
	case 3:
		return []string{"0", "1", "x", "0x", "0b", "-", "08", "0b101", "00", "9", "0X1F"}[r.Intn(11)]
	case 4:
		return "18446744073709551616"
	}
	return numArg(r, 100)
}

func spaces(r *rand.Rand) string {
	switch r.Intn(6) {
	case 0:
		return strings.Repeat(" ", 2+r.Intn(4))
	case 1:
		return " \t"
	}
	return " "
}

// GenLine generates one console line for a listing of the given length.
func GenLine(r *rand.Rand, listingLen int) string {
	switch r.Intn(20) {
	case 0:
		return strings.Repeat(" ", 1+r.Intn(5)) // whitespace only
	case 1:
		return "" // plain ENTER
	case 2:
		return "\t"
	case 3:
		bs := make([]byte, r.Intn(30))
		for i := range bs {
			bs[i] = byte(32 + r.Intn(95))
		}
		return string(bs)
	case 4:
		return []string{"é", "語 1", "😀", "\x00", "d\x001", "q q", "down down", "  q"}[r.Intn(8)]
	case 5:
		return "nosuchcommand " + numArg(r, listingLen)
	}
	key := allKeys[r.Intn(len(allKeys))]
	kinds := AppCmds[key]
	if k, ok := EmuCmds[key]; ok && r.Intn(2) == 0 {
		kinds = k
	}
	if k, ok := MemCmds[key]; ok && r.Intn(3) == 0 {
		kinds = k
	}
	var sb strings.Builder
	if r.Intn(8) == 0 {
		sb.WriteString(spaces(r))
	}
	sb.WriteString(key)
	n := len(kinds)
	switch r.Intn(8) {
	case 0:
		if n > 0 {
			n-- // too few
		}
	case 1:
		n += 1 + r.Intn(2) // too many
	}
	for i := 0; i < n; i++ {
		sb.WriteString(spaces(r))
		k := byte('n')
		if i < len(kinds) {
			k = kinds[i]
		}
		switch k {
		case 'n':
			sb.WriteString(numArg(r, listingLen))
		case 'a':
			sb.WriteString(addrArg(r))
		default:
			sb.WriteString(strArg(r))
		}
	}
	if r.Intn(8) == 0 {
		sb.WriteString(spaces(r))
	}
	return sb.String()
}

// MustError decides, by my own grammar, whether a line cannot be a command of the
// mode: unknown key, too few arguments or an unparsable numeric argument.
func MustError(mode, line string) (bool, string) {
	tab := CmdTable(mode)
	if tab == nil {
		return false, ""
	}
	var parts []string
	for _, p := range strings.Split(line, " ") {
		if p != "" {
			parts = append(parts, p)
		}
	}
	if len(parts) == 0 {
		return false, ""
	}
	kinds, ok := tab[parts[0]]
	if !ok {
		return true, "unknown command"
	}
	if len(parts)-1 < len(kinds) {
		return true, "too few arguments"
	}
	for i := 0; i < len(kinds); i++ {
		if kinds[i] != 'n' {
			continue
		}
		v, err := strconv.Atoi(parts[1+i])
		if err != nil || v < 0 {
			return true, "unparsable number"
		}
	}
	return false, ""
}
