#!/usr/bin/env python3
"""tools/seedtable.py  rewrite the table of section 10 of DESIGN.md from seeded/*/meta.json"""
import json, glob, os, re
V=os.path.dirname(os.path.dirname(os.path.abspath(__file__)))
rows=[]
for d in sorted(glob.glob(os.path.join(V,'seeded','*'))):
    mp=os.path.join(d,'meta.json')
    if not os.path.exists(mp): continue
    m=json.load(open(mp))
    runs=m.get('check_runs',[])
    caught=[r for r in runs if r['exit']==1]
    own=[r for r in caught if r['check']==m['property']]
    def fmt(r):
        subs=[s.replace('check=','') for s in r.get('subchecks',[])][:3]
        return f"{r['check']} {r['tier']}: "+", ".join(subs)
    c="; ".join(fmt(r) for r in (own or caught)[:2]) or "**missed**"
    others=[r['check'] for r in caught if r['check']!=m['property']]
    if others: c+=" (also "+", ".join(sorted(set(others)))+")"
    ok=m['confirmed']
    conf="yes" if ok['demo_on_unchanged_tree_exit']==0 and ok['baseline_suite_with_change_exit']==0 and ok['demo_with_change_exit']!=0 else "NO"
    rows.append(f"| {m['id']} | {m.get('breaks','')} | {m.get('needs_to_manifest','')} | {conf} | {c} |")
table="| seed | change | needs, to manifest | suite passes, demo flips | caught by |\n|---|---|---|---|---|\n"+"\n".join(rows)+"\n"
p=os.path.join(V,'DESIGN.md')
s=open(p).read()
b,e="<!-- SEEDTABLE BEGIN -->","<!-- SEEDTABLE END -->"
s=s[:s.index(b)+len(b)]+"\n"+table+s[s.index(e):]
open(p,'w').write(s)
print(len(rows),"rows")
