#!/usr/bin/env python3
"""Regenerates /verif/MANIFEST.json from the table in tools/checks.json."""
import json, os, subprocess
V = os.path.dirname(os.path.dirname(os.path.abspath(__file__)))
tab = json.load(open(os.path.join(V, 'tools', 'checks.json')))
props = [json.loads(l) for l in open(os.path.join(V, 'properties.jsonl'))]
hooks_commits = tab.get('hook_commits', [])
checks, na = [], []
for p in props:
    pid = p['id']
    c = tab['checks'].get(pid)
    if not c:
        na.append({'property_id': pid, 'reason': tab['not_applicable'].get(pid, 'check not built yet (runtime monitor planned in DESIGN.md section 4)')})
        continue
    e = {
        'property_id': pid,
        'quick_cmd': f'./run {pid} quick',
        'thorough_cmd': f'./run {pid} thorough',
        'evidence_file': f'evidence/{pid}.json',
        'replay_cmd_template': f'./run {pid} --replay {{path}}',
        'engine': f'harness/checks/{pid.lower()}',
        'level_claimed': {'category': 'exploration', 'text': c['text'], 'design_ref': f'DESIGN.md section 4, {pid}'},
        'level_note': c['note'],
        'technique': c['technique'],
    }
    checks.append(e)
m = {
    'version': 1,
    'setup_cmd': './setup',
    'hooks': {
        'guard': 'verif',
        'enable': 'go build -tags verif (harness module mltwist/verifh with replace mltwist => /repo; see ./run)',
        'baseline_off_cmd': 'cd /repo && GOFLAGS=-mod=mod GOPROXY=off GOSUMDB=off go test -json -vet=off -count=1 -timeout 25m ./...',
        'source_commits': hooks_commits,
        'add_only': True,
    },
    'engines': [{'name': 'verifh', 'path': 'harness', 'serves_properties': [c['property_id'] for c in checks],
                 'kind_free_text': 'Go harness: seeded workload generators + reference-model oracles (refir big-int IR interpreter, refrv RISC-V reference, shadow memories/bitsets) observing executions of the real packages; shards as child processes'}],
    'checks': checks,
    'not_applicable': na,
    'notes': tab.get('notes', ''),
}
json.dump(m, open(os.path.join(V, 'MANIFEST.json'), 'w'), indent=1)
print(len(checks), 'checks,', len(na), 'not claimed')
