#!/bin/bash
# tools/harvest.sh <PROP> <suffix>   copy a sub-agent's result (/tmp/wt-<PROP>/seed) into seeded/<PROP>-<suffix>/
# and turn its run_demo.sh (hard-wired to its worktree) into demo.sh <repo-dir>.
set -eu
p=$1; s=$2
V=$(cd "$(dirname "$0")/.." && pwd)
src=/tmp/wt-$p/seed
dst=$V/seeded/$p-$s
mkdir -p "$dst"
cp "$src/patch.diff" "$src/NOTES.md" "$dst/"
for f in "$src"/*; do
  case "$(basename "$f")" in patch.diff|NOTES.md|run_demo.sh) ;; *) cp -r "$f" "$dst/";; esac
done
# demo.sh: same commands, worktree replaced by $1, seed dir replaced by this directory
{
  echo '#!/bin/bash'
  echo '# usage: demo.sh <repo-dir>   exit 0 = demonstration passes (property intact), non-zero = fails'
  echo 'D=$(cd "$(dirname "$0")" && pwd)'
  echo 'R=$(cd "$1" && pwd)'
  sed -e '1{/^#!/d}' -e "s#/tmp/wt-$p/seed#\$D#g" -e "s#\\\$WT/seed#\$D#g" -e "s#\"\\\$WT\"/seed#\"\$D\"#g" -e "s#cp seed/#cp \"\$D\"/#g" -e 's#"\$[A-Za-z_]*/seed/#"$D/#g'  -e 's#\$(cd "\$(dirname "\$0")/.." && pwd)#$R#' -e "s#/tmp/wt-$p#\$R#g" "$src/run_demo.sh"
} > "$dst/demo.sh"
chmod +x "$dst/demo.sh"
if grep -n 'seed' "$dst/demo.sh" | grep -v 'seed_\|Seed\|_seed' ; then echo "^^^ check these lines of $dst/demo.sh"; fi
echo "harvested $dst"
