#!/bin/bash
# tools/seedrun.sh <seed-id> [tier] [CHECK...]  apply seeded/<seed-id>/patch.diff to a scratch worktree of /repo,
# confirm the baseline suite still passes, run the given checks (default: those in meta.json) against it, clean up.
set -u
id=$1; tier=${2:-quick}; shift; shift || true
cd "$(dirname "$0")/.."
V=$(pwd)
wt=/tmp/seedrun-$id-$$
export GOFLAGS=-mod=mod GOPROXY=off GOSUMDB=off GOTOOLCHAIN=local
git -C /repo worktree add -q --detach "$wt" HEAD || exit 2
trap 'git -C /repo worktree remove --force "$wt" >/dev/null 2>&1' EXIT
if ! git -C "$wt" apply "$V/seeded/$id/patch.diff"; then echo "PATCH DOES NOT APPLY"; exit 2; fi
if [ "${SKIP_SUITE:-0}" != 1 ]; then
  if (cd "$wt" && go build ./... && go test -vet=off -count=1 ./... >/tmp/seedrun-suite-$$.log 2>&1); then echo "suite: PASS with the change"; else echo "suite: FAILS with the change"; grep -v "^ok\|no test files" /tmp/seedrun-suite-$$.log | head; fi
  rm -f /tmp/seedrun-suite-$$.log
fi
checks="$*"
if [ -z "$checks" ]; then checks=$(python3 -c "import json;print(' '.join(json.load(open('$V/seeded/$id/meta.json')).get('checks_expected',[])))"); fi
for c in $checks; do
  out=$(VERIF_REPO="$wt" VERIF_EVIDENCE_DIR=/tmp/seedrun-evidence ./run $c $tier 2>&1); rc=$?
  echo "check $c $tier: rc=$rc $(echo "$out" | grep -E '^C[0-9]+ (quick|thorough)' | cut -c1-120)"
  echo "$out" | grep -E "check=" | cut -c1-200 | head -4
done
