#!/bin/bash
# tools/runall.sh [tier]   run every registered check once; print one line per check
tier=${1:-quick}
cd "$(dirname "$0")/.."
ids=$(python3 -c "import json;print(' '.join(c['property_id'] for c in json.load(open('MANIFEST.json'))['checks']))")
fail=0
for id in $ids; do
  s=$(date +%s)
  out=$(./run $id $tier 2>&1); rc=$?
  e=$(( $(date +%s) - s ))
  echo "rc=$rc ${e}s $(echo "$out" | grep -E "^$id $tier" | head -1 | cut -c1-150)"
  if [ $rc -ne 0 ]; then fail=1; echo "$out" | grep -E "VIOLATION|INCONCLUSIVE|check=" | head -6; fi
done
exit $fail
