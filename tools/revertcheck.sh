#!/bin/bash
# tools/revertcheck.sh  for every "fixed:" entry revert that commit on a scratch worktree and confirm the
# property's quick check reports a violation again (a fixed entry suppresses nothing).
cd "$(dirname "$0")/.."
V=$(pwd)
export GOFLAGS=-mod=mod GOPROXY=off GOSUMDB=off GOTOOLCHAIN=local
python3 - <<'PY' > /tmp/revert-list.txt
import json,re
k=json.load(open('/verif/known_findings.json'))
for f in k['fixed']:
    m=re.match(r'fixed: property=(C\d+)[^0-9a-f]*?(?:\(also [^)]*\) )?([0-9a-f]{7})',f)
    if m: print(m.group(1),m.group(2))
PY
while read prop commit; do
  wt=/tmp/revert-$commit
  git -C /repo worktree add -q --detach "$wt" HEAD || continue
  if ! git -C "$wt" revert -n "$commit" >/dev/null 2>&1; then echo "$prop $commit: revert conflicts (skipped)"; git -C /repo worktree remove --force "$wt"; continue; fi
  if ! (cd "$wt" && go build ./... 2>/dev/null); then echo "$prop $commit: does not build after revert (skipped)"; git -C /repo worktree remove --force "$wt"; continue; fi
  out=$(VERIF_REPO="$wt" VERIF_EVIDENCE_DIR=/tmp/seedrun-evidence ./run $prop quick 2>&1); rc=$?
  echo "$prop $commit: rc=$rc $(echo "$out" | grep -E 'check=' | head -1 | cut -c1-110)"
  git -C /repo worktree remove --force "$wt"
done < /tmp/revert-list.txt
