#!/bin/bash
# tools/seedverify.sh <seed-id>: confirm (1) patch applies, builds, suite passes; (2) demo FAILS with the change; (3) demo PASSES without it.
id=$1; V=$(cd "$(dirname "$0")/.." && pwd)
wt=/tmp/seedverify-$id-$$
export GOFLAGS=-mod=mod GOPROXY=off GOSUMDB=off GOTOOLCHAIN=local
git -C /repo worktree add -q --detach "$wt" HEAD || exit 2
trap 'git -C /repo worktree remove --force "$wt" >/dev/null 2>&1' EXIT
"$V/seeded/$id/demo.sh" "$wt" >/tmp/sv-$$.log 2>&1; r0=$?
git -C "$wt" apply "$V/seeded/$id/patch.diff" || { echo "$id: PATCH DOES NOT APPLY"; exit 2; }
(cd "$wt" && go build ./... && go test -vet=off -count=1 ./... >/tmp/sv-suite-$$.log 2>&1); rs=$?
"$V/seeded/$id/demo.sh" "$wt" >/tmp/sv2-$$.log 2>&1; r1=$?
echo "$id: demo without change rc=$r0 (want 0); suite with change rc=$rs (want 0); demo with change rc=$r1 (want !=0)"
[ $r0 -ne 0 ] && tail -5 /tmp/sv-$$.log
[ $rs -ne 0 ] && grep -v "^ok\|no test files" /tmp/sv-suite-$$.log | head -5
rm -f /tmp/sv-$$.log /tmp/sv2-$$.log /tmp/sv-suite-$$.log
