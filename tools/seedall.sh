#!/bin/bash
# tools/seedall.sh [ids...]   re-run every seeded change (quick tier of its property's check) and
# rewrite the meta.json files; prints one line per seed. Regression test of the monitors.
cd "$(dirname "$0")/.."
ids="$*"
[ -z "$ids" ] && ids=$(ls seeded | sort)
for id in $ids; do
  out=$(SEED_THOROUGH=${SEED_THOROUGH:-0} tools/seedproc.sh "$id" "" 2>&1)
  echo "$out" | grep -E "^$id:|check C[0-9]+ (quick|thorough):" | tr '\n' ' '; echo
done
