#!/bin/bash
# tools/seeds.sh <tier> <seeds> ID...   run checks at several seeds, print summary lines
tier=$1; seeds=$2; shift 2
cd "$(dirname "$0")/.."
for id in "$@"; do for s in $seeds; do
  out=$(VERIF_SEED=$s ./run $id $tier 2>&1); rc=$?
  echo "rc=$rc $(echo "$out" | grep -E "^$id (quick|thorough)" | head -1)"
  [ $rc -ne 0 ] && echo "$out" | grep -E "VIOLATION|INCONCLUSIVE|check=" | head -8
done; done
