#!/bin/bash
# tools/seedproc.sh <seed-id> "<what it needs to manifest>" [extra CHECK...]
# One scratch worktree of /repo: (1) demo passes on the unchanged tree, (2) patch applies, builds, the
# baseline suite passes with it, (3) demo fails with it, (4) the property's quick check (and any extra
# checks) is run against the changed tree; if quick misses, thorough is run. Writes seeded/<id>/meta.json.
set -u
id=$1; needs=${2:-}; shift; shift || true
extra="$*"
V=$(cd "$(dirname "$0")/.." && pwd)
prop=${id%%-*}
wt=/tmp/seedproc-$id-$$
export GOFLAGS=-mod=mod GOPROXY=off GOSUMDB=off GOTOOLCHAIN=local
git -C /repo worktree add -q --detach "$wt" HEAD || exit 2
trap 'git -C /repo worktree remove --force "$wt" >/dev/null 2>&1; rm -rf /tmp/sp-$$-* /tmp/seedrun-evidence-$$' EXIT
"$V/seeded/$id/demo.sh" "$wt" >/tmp/sp-$$-d0.log 2>&1; r0=$?
if ! git -C "$wt" apply "$V/seeded/$id/patch.diff"; then echo "$id: PATCH DOES NOT APPLY"; exit 2; fi
(cd "$wt" && go build ./... && go test -vet=off -count=1 -v ./... >/tmp/sp-$$-suite.log 2>&1); rs=$?
ntests=$(grep -c '^=== RUN' /tmp/sp-$$-suite.log)
"$V/seeded/$id/demo.sh" "$wt" >/tmp/sp-$$-d1.log 2>&1; r1=$?
echo "$id: demo unchanged rc=$r0 (want 0); suite with change rc=$rs (want 0, $ntests tests run); demo with change rc=$r1 (want !=0)"
[ $r0 -ne 0 ] && tail -5 /tmp/sp-$$-d0.log
[ $rs -ne 0 ] && grep -E "^(--- FAIL|FAIL|panic)" /tmp/sp-$$-suite.log | head -5
git -C "$wt" status --short | grep -v '^ M' | head -3
results=""
for c in $prop $extra; do
  for tier in quick thorough; do
    s=$(date +%s)
    out=$(cd "$V" && VERIF_REPO="$wt" VERIF_EVIDENCE_DIR=/tmp/seedrun-evidence-$$ ./run $c $tier 2>&1); rc=$?
    e=$(( $(date +%s) - s ))
    subs=$(echo "$out" | grep -oE 'check=[A-Za-z0-9_.-]+' | sort -u | head -6 | tr '\n' ' ')
    echo "  check $c $tier: rc=$rc ${e}s $subs"
    echo "$out" | grep -E "check=|^INCONCLUSIVE" | cut -c1-220 | head -3
    results="$results$c|$tier|$rc|$e|$subs;"
    [ $rc -eq 1 ] && break
    [ "${SEED_THOROUGH:-1}" = 0 ] && break
  done
done
python3 - "$V/seeded/$id/meta.json" "$id" "$prop" "$needs" "$r0" "$rs" "$r1" "$ntests" "$results" <<'PY'
import json,sys,os
path,id_,prop,needs,r0,rs,r1,nt,res=sys.argv[1:10]
old=json.load(open(path)) if os.path.exists(path) else {}
runs=[]
for r in res.split(';'):
    if not r: continue
    c,t,rc,e,subs=r.split('|')
    runs.append({"check":c,"tier":t,"exit":int(rc),"seconds":int(e),"subchecks":subs.split(),
                 "verdict":{0:"missed",1:"caught",2:"inconclusive"}.get(int(rc),"?")})
m={"id":id_,"property":prop,
   "breaks": old.get("breaks",""),
   "needs_to_manifest": needs or old.get("needs_to_manifest",""),
   "origin":"independent sub-agent given only the property text and a scratch worktree",
   "confirmed":{"demo_on_unchanged_tree_exit":int(r0),"baseline_suite_with_change_exit":int(rs),
                "baseline_tests_run_with_change":int(nt),"demo_with_change_exit":int(r1),
                "how":"tools/seedproc.sh: git worktree of /repo HEAD under /tmp, demo.sh, git apply patch.diff, go build ./... && go test -vet=off -count=1 ./..., demo.sh, ./run <check> with VERIF_REPO=<worktree>"},
   "check_runs":runs,
   "caught_by":[f"{r['check']} {r['tier']}" for r in runs if r['exit']==1]}
json.dump(m,open(path,'w'),indent=1); open(path,'a').write("\n")
PY
