#!/usr/bin/env python3
"""tools/sizetable.py [thorough-log]  rewrite the workload-size table of DESIGN.md 9.7 from evidence/*.json
(quick tier, written by the checks in /verif) and, optionally, the output of a tools/runall.sh thorough run."""
import json, glob, os, re, sys
V=os.path.dirname(os.path.dirname(os.path.abspath(__file__)))
th={}
if len(sys.argv)>1:
    for l in open(sys.argv[1]):
        m=re.match(r'rc=(\d+) (\d+)s (C\d+) thorough seed=\d+: cases=(\d+) evaluations=(\d+) distinct_nontrivial=(\d+) violations=(\d+) known=(\d+)',l)
        if m: th[m.group(3)]=m.groups()
rows=[]
for p in sorted(glob.glob(os.path.join(V,'evidence','C*.json'))):
    e=json.load(open(p)); c=e['coverage']; pid=e['property_id']
    t=th.get(pid)
    tt=f"{int(t[3]):,} / {int(t[4]):,} / {t[1]} s" if t else "-"
    rows.append(f"| {pid} | {c['cases']:,} | {c['evaluations']:,} | {c['distinct_nontrivial']:,} | {c.get('floor','')} | {e['wall_s']:.0f} s | {tt} |")
table="| check | quick: cases | evaluations | distinct non-trivial | floor | wall | thorough: cases / evaluations / wall |\n|---|---|---|---|---|---|---|\n"+"\n".join(rows)+"\n"
p=os.path.join(V,'DESIGN.md'); s=open(p).read()
b,e="<!-- SIZETABLE BEGIN -->","<!-- SIZETABLE END -->"
s=s[:s.index(b)+len(b)]+"\n"+table+s[s.index(e):]
open(p,'w').write(s); print(len(rows),'rows')
